"""Common machinery for /verif checks: TLC runner, harness builder, evidence, verdicts."""
import json, os, re, shutil, subprocess, sys, time, hashlib, tempfile, glob

VERIF = os.path.dirname(os.path.dirname(os.path.abspath(__file__)))
REPO = os.environ.get("VERIF_REPO", "/repo")
TLA_DIR = os.path.join(VERIF, "tla")
HARNESS = os.path.join(VERIF, "harness")
NCPU = os.cpu_count() or 4

GOENV = dict(os.environ, GOFLAGS="-mod=mod", GOPROXY="off", GOSUMDB="off", GOTOOLCHAIN="local",
             CGO_ENABLED=os.environ.get("CGO_ENABLED", "1"))


class Inconclusive(Exception):
    pass


def sha(s):
    if not isinstance(s, (bytes, bytearray)):
        s = s.encode()
    return hashlib.sha1(s).hexdigest()[:16]


class Ctx:
    def __init__(self, pid, tier, seed):
        self.pid, self.tier, self.seed = pid, tier, seed
        self.t0 = time.time()
        self.work = os.path.join(VERIF, ".work", "%s-%s-%d" % (pid, tier, os.getpid()))
        shutil.rmtree(self.work, ignore_errors=True)
        os.makedirs(self.work)
        self.states = 0
        self.transitions = 0
        self.tlc_runs = []
        self.violations = []   # dicts: key, what, case
        self.known = []        # dicts
        self.drift = []
        self.cov = {}
        self.samples = []
        self.evaluations = 0
        self.nontrivial = set()
        self.traces_validated = 0
        self.assumptions = []
        self.exhaustive = None
        self._vh = {}

    @property
    def quick(self):
        return self.tier == "quick"

    def path(self, name):
        return os.path.join(self.work, name)

    # ------------------------------------------------------------------ TLC
    def tlc(self, module, cfg=None, *, env=None, workers=None, simulate=None, depth=100,
            timeout=600, extra=(), deadlock=False, dfs=False, name=None, check_ok=True,
            heap=None, files=None):
        """Run TLC on tla/<module>.tla with tla/<cfg>.cfg. Returns dict(generated, distinct, out, rc)."""
        name = name or (cfg or module)
        wd = self.path("tlc-" + name)
        if os.path.exists(wd):
            shutil.rmtree(wd)
        os.makedirs(wd)
        for f in glob.glob(os.path.join(TLA_DIR, "*.tla")) + glob.glob(os.path.join(TLA_DIR, "*.cfg")):
            shutil.copy(f, wd)
        for fn, content in (files or {}).items():
            open(os.path.join(wd, fn), "w").write(content)
        cfgf = (cfg or module) + ".cfg"
        cmd = ["tlc", "-metadir", os.path.join(wd, "meta"), "-config", cfgf]
        if workers is None:
            workers = NCPU
        cmd += ["-workers", str(workers)]
        if not deadlock:
            cmd += ["-deadlock"]
        if simulate:
            cmd += ["-simulate", "num=%d" % simulate, "-depth", str(depth), "-seed", str(self.seed)]
        cmd += list(extra)
        cmd += [module + ".tla"]
        e = dict(os.environ)
        jto = e.get("JAVA_TOOL_OPTIONS", "")
        jto += " -Xss64m"
        if dfs:
            jto += " -Dtlc2.tool.queue.IStateQueue=StateDeque"
        e["JAVA_TOOL_OPTIONS"] = jto.strip()
        if env:
            e.update({k: str(v) for k, v in env.items()})
        t = time.time()
        try:
            p = subprocess.run(["timeout", str(timeout)] + cmd, cwd=wd, env=e, stdout=subprocess.PIPE,
                               stderr=subprocess.STDOUT, text=True)
        except Exception as ex:
            raise Inconclusive("TLC could not be started: %s" % ex)
        out = p.stdout
        open(os.path.join(wd, "tlc.out"), "w").write(out)
        gen = dist = 0
        m = None
        for m in re.finditer(r"(\d+) states generated, (\d+) distinct states found", out):
            pass
        if m:
            gen, dist = int(m.group(1)), int(m.group(2))
        else:
            m2 = re.search(r"(\d+) states checked", out)  # simulation mode
            if m2:
                gen = dist = int(m2.group(1))
        r = dict(generated=gen, distinct=dist, out=out, rc=p.returncode, wall=time.time() - t, dir=wd, name=name)
        self.tlc_runs.append(dict(name=name, module=module, cfg=cfgf, generated=gen, distinct=dist,
                                  rc=p.returncode, wall_s=round(r["wall"], 2),
                                  mode="simulate" if simulate else "bfs"))
        self.states += dist
        self.transitions += gen
        if check_ok:
            if p.returncode == 124:
                raise Inconclusive("TLC timeout on %s (%ss)" % (name, timeout))
            if p.returncode != 0:
                raise Inconclusive("TLC failed on %s rc=%d:\n%s" % (name, p.returncode, out[-3000:]))
        return r

    # -------------------------------------------------------------- harness
    def build_harness(self, race=False, tags="verif"):
        key = (race, tags)
        if key in self._vh:
            return self._vh[key]
        gosum = os.path.join(REPO, "go.sum")
        if os.path.exists(gosum):
            shutil.copy(gosum, os.path.join(HARNESS, "go.sum"))
        out = self.path("vh" + ("-race" if race else ""))
        cmd = ["go", "build", "-tags", tags, "-o", out]
        if race:
            cmd.append("-race")
        if REPO != "/repo":
            mod = open(os.path.join(HARNESS, "go.mod")).read().replace("=> /repo", "=> " + REPO)
            alt = self.path("alt.mod")
            open(alt, "w").write(mod)
            if os.path.exists(gosum):
                shutil.copy(gosum, self.path("alt.sum"))
            cmd += ["-modfile", alt]
        cmd.append("./cmd/vh")
        p = subprocess.run(cmd, cwd=HARNESS, env=GOENV, stdout=subprocess.PIPE, stderr=subprocess.STDOUT, text=True)
        if p.returncode != 0:
            # a repo that does not build with the harness: decide whether repo itself builds
            q = subprocess.run(["go", "build", "-tags", tags, "./..."], cwd=REPO, env=GOENV,
                               stdout=subprocess.PIPE, stderr=subprocess.STDOUT, text=True)
            raise Inconclusive("harness build failed (repo builds: %s):\n%s" % (q.returncode == 0, p.stdout[-3000:]))
        self._vh[key] = out
        return out

    def vh(self, sub, *args, race=False, timeout=1800, env=None, stdin=None, check=True):
        exe = self.build_harness(race=race)
        e = dict(GOENV)
        e["VERIF_SEED"] = str(self.seed)
        e["VERIF_TIER"] = self.tier
        if env:
            e.update({k: str(v) for k, v in env.items()})
        p = subprocess.run(["timeout", str(timeout), exe, sub] + [str(a) for a in args], env=e,
                           stdout=subprocess.PIPE, stderr=subprocess.PIPE, text=True, input=stdin)
        if check and p.returncode != 0:
            raise Inconclusive("harness %s failed rc=%d:\n%s\n%s" % (sub, p.returncode, p.stdout[-2000:], p.stderr[-3000:]))
        return p

    # ------------------------------------------------------------- verdicts
    def violation(self, key, what, case=None):
        self.violations.append(dict(key=key, what=what, case=case))

    def sample(self, s, limit=6):
        if len(self.samples) < limit:
            self.samples.append(s)


def read_ndjson(path):
    out = []
    with open(path) as f:
        for line in f:
            line = line.strip()
            if not line:
                continue
            v = json.loads(line)
            if isinstance(v, str):      # TLC CSVWrite of ToJson: a JSON string holding JSON
                v = json.loads(v)
            out.append(v)
    return out


def read_tlc_export(path, dedupe=True):
    """Records written by TLC via CSVWrite("%1$s", <<ToJson(rec)>>, file)."""
    seen, out = set(), []
    if not os.path.exists(path):
        return out
    with open(path) as f:
        for line in f:
            line = line.strip()
            if not line:
                continue
            if dedupe:
                h = hashlib.sha1(line.encode()).digest()
                if h in seen:
                    continue
                seen.add(h)
            try:
                v = json.loads(line)
                if isinstance(v, str):
                    v = json.loads(v)
            except ValueError:
                v = json.loads(line.replace('\\"', '"').strip('"'))
            out.append(v)
    return out


def write_ndjson(path, recs):
    with open(path, "w") as f:
        for r in recs:
            f.write(json.dumps(r, separators=(",", ":")) + "\n")


def load_known(pid):
    p = os.path.join(VERIF, "known_findings.jsonl")
    fnd = {}
    if os.path.exists(p):
        for line in open(p):
            line = line.strip()
            if not line or line.startswith("#"):
                continue
            if line.startswith("fixed:"):
                continue
            d = json.loads(line)
            if d.get("property") == pid and d.get("status", "finding") == "finding":
                for k in d.get("keys", [d.get("key")]):
                    fnd[k] = d
    return fnd


def finish(ctx, level="model_checking", rule="", extra=None):
    """Apply known-findings, print verdict lines, write evidence, return exit code."""
    known = load_known(ctx.pid)
    rep_dir = os.path.join(VERIF, "replays", ctx.pid)
    new = []
    printed_known = set()
    for v in ctx.violations:
        k = v["key"]
        if k in known:
            ent = known[k]
            tag = ent.get("id", k)
            if tag not in printed_known:
                printed_known.add(tag)
                print("KNOWN-FINDING: property=%s %s" % (ctx.pid, ent.get("what", v["what"])))
            ctx.known.append(k)
        else:
            new.append(v)
    shown = 0
    for v in new[:200]:
        os.makedirs(rep_dir, exist_ok=True)
        path = os.path.join(rep_dir, "%s.json" % re.sub(r"[^A-Za-z0-9_.-]", "_", str(v["key"]))[:80])
        json.dump(dict(property=ctx.pid, key=v["key"], what=v["what"], case=v["case"]), open(path, "w"), indent=1)
        if shown < 25:
            print("VIOLATION property=%s replay=%s" % (ctx.pid, path))
            print("  " + str(v["what"])[:400])
            shown += 1
    if len(new) > shown:
        print("  ... and %d more violations (all written under %s)" % (len(new) - shown, rep_dir))
    cov = dict(states=ctx.states, transitions=ctx.transitions,
               traces_validated_against_impl=ctx.traces_validated,
               samples=ctx.samples[:8] or ["(none)"],
               evaluations=ctx.evaluations, distinct_nontrivial=len(ctx.nontrivial) if isinstance(ctx.nontrivial, set) else ctx.nontrivial,
               rule=rule, tlc_runs=ctx.tlc_runs, drift=ctx.drift[:20], drift_count=len(ctx.drift),
               known_findings=len(ctx.known), repo=REPO)
    if ctx.exhaustive is not None:
        cov["exhaustive"] = ctx.exhaustive
    cov.update(ctx.cov)
    if extra:
        cov.update(extra)
    ev = dict(property_id=ctx.pid, tier=ctx.tier, seed=ctx.seed, level=level, coverage=cov,
              assumptions=ctx.assumptions, wall_s=round(time.time() - ctx.t0, 2), violations=len(new))
    os.makedirs(os.path.join(VERIF, "evidence"), exist_ok=True)
    json.dump(ev, open(os.path.join(VERIF, "evidence", ctx.pid + ".json"), "w"), indent=1)
    shutil.rmtree(ctx.work, ignore_errors=True)
    print("%s %s: states=%d transitions=%d evaluations=%d replayed/validated=%d known=%d drift=%d violations=%d wall=%.1fs" % (
        ctx.pid, ctx.tier, ctx.states, ctx.transitions, ctx.evaluations, ctx.traces_validated, len(ctx.known),
        len(ctx.drift), len(new), time.time() - ctx.t0))
    return 1 if new else 0
