CONSTANTS
  MaxLen = 6
  Part = "strbody"
SPECIFICATION Spec
INVARIANTS Export
