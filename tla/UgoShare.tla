------------------------------- MODULE UgoShare -------------------------------
(* C08: many VMs execute one Bytecode concurrently.

   Shared, read-only: the constants of the Bytecode (among them the attribute
   map of an imported builtin module) and the file set.  Private per VM: stack,
   frames, globals, module cache.  Each VM runs the same program at the grain of
   the instructions that touch shared or cached objects:
       load   (LOADMODULE: cache empty -> take the constant)
       store  (STOREMODULE: cache := Copy(value) when CopyOnStore)
       write  (m.x = m.x + id   through the cached object)
       read   (return m.x)
   Invariants: Isolation (each VM returns what it returns alone) and
   ModulePrivacy (a VM never observes another VM's write).  With CopyOnStore =
   FALSE TLC finds the violating interleaving - the design reason for the copy.
   Every interleaving is exported (VIEW hides the schedule) and forced on two
   real VMs through the per-instruction gate. *)
EXTENDS Integers, Sequences, FiniteSets, TLC, Json, CSV, IOUtils

CONSTANTS NVM, CopyOnStore

VMs == 1..NVM
Base == 10                       \* value of attribute x of the builtin module in the constants

VARIABLES pc,        \* per VM: next event
          shared,    \* the module object in the constants: x
          cache,     \* per VM: "none" | "shared" | "own"
          own,       \* per VM: x of its private copy
          ret,       \* per VM: returned value (0 = not yet)
          sched
vars == <<pc, shared, cache, own, ret, sched>>

Init == /\ pc = [v \in VMs |-> "load"] /\ shared = Base /\ cache = [v \in VMs |-> "none"]
        /\ own = [v \in VMs |-> 0] /\ ret = [v \in VMs |-> 0] /\ sched = <<>>

Val(v) == IF cache[v] = "own" THEN own[v] ELSE shared
Step(v) ==
  /\ sched' = Append(sched, <<v, pc[v]>>)
  /\ CASE pc[v] = "load"  -> /\ pc' = [pc EXCEPT ![v] = "store"] /\ UNCHANGED <<shared, cache, own, ret>>
       [] pc[v] = "store" -> /\ pc' = [pc EXCEPT ![v] = "write"]
                             /\ cache' = [cache EXCEPT ![v] = IF CopyOnStore THEN "own" ELSE "shared"]
                             /\ own' = [own EXCEPT ![v] = shared] /\ UNCHANGED <<shared, ret>>
       [] pc[v] = "write" -> /\ pc' = [pc EXCEPT ![v] = "read"]
                             /\ (IF cache[v] = "own" THEN own' = [own EXCEPT ![v] = @ + v] /\ UNCHANGED shared
                                 ELSE shared' = shared + v /\ UNCHANGED own)
                             /\ UNCHANGED <<cache, ret>>
       [] pc[v] = "read"  -> /\ pc' = [pc EXCEPT ![v] = "done"] /\ ret' = [ret EXCEPT ![v] = Val(v)]
                             /\ UNCHANGED <<shared, cache, own>>
Next == \E v \in VMs : pc[v] # "done" /\ Step(v)
Spec == Init /\ [][Next]_vars

Isolation == \A v \in VMs : ret[v] # 0 => ret[v] = Base + v
ModulePrivacy == shared = Base
View == <<pc, shared, cache, own, ret>>
AllDone == \A v \in VMs : pc[v] = "done"
\* every complete interleaving, written when the last VM finishes
NextH == Next /\ ((\A v \in VMs : pc'[v] = "done") => CSVWrite("%1$s", <<ToJson([sched |-> sched', expect |-> [v \in VMs |-> Base + v]])>>, IOEnv.OUT))
SpecH == Init /\ [][NextH]_vars
=============================================================================
