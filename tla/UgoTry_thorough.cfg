CONSTANTS
  Family = "d2"
  WithRte = TRUE
SPECIFICATION Spec
INVARIANTS Conforms HandlerDiscipline HandlerBound Export
