CONSTANTS
  Fams = {"frag"}
SPECIFICATION Spec
INVARIANTS ExportFrag
