CONSTANTS
  Part = "bytesoup"
  MaxLen = 5
SPECIFICATION Spec
INVARIANTS Export
