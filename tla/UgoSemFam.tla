------------------------------ MODULE UgoSemFam ------------------------------
(* Bounded program families over the reference semantics UgoSem, one TLC state
   per program: Init picks the construction parameters, Judge evaluates the
   reference semantics and exports program + expected observation for the
   replay on the real compiler + VM.  Which families are enumerated is chosen
   by the constant Fams (one .cfg per property). *)
EXTENDS UgoSem, Json, CSV, IOUtils

CONSTANT Fams

I(n) == Lit(VInt(n))
S(s) == Lit(VStr(s))
T == Lit(VBool(TRUE))
F == Lit(VBool(FALSE))
U == Lit(VUndef)
C0(e) == Call(e, <<>>)
C1(e, a) == Call(e, <<a>>)
Inc(n) == Asg(n, Bin("+", Id(n), I(1)))
Fn0(b) == Fn(<<>>, FALSE, b)
\* a function that logs tag and returns v
Tap(tag, v) == C0(Fn0(<<Log(S(tag)), Ret(v)>>))

(* ------------------------------------------------------------ closures *)
F2 == Ret(Arr(<<C0(Idx(Id("fs"), I(0))), C0(Idx(Id("fs"), I(1)))>>))
Push1(e) == Asg("fs", Call(Id("append"), <<Id("fs"), e>>))
Closure == <<
  <<Def("fs", Arr(<<>>)), For(<<Def("i", I(0))>>, Bin("<", Id("i"), I(2)), <<Inc("i")>>, <<Push1(Fn0(<<Ret(Id("i"))>>))>>), F2>>,
  <<Def("fs", Arr(<<>>)), For(<<Def("i", I(0))>>, Bin("<", Id("i"), I(2)), <<Inc("i")>>, <<Def("x", Id("i")), Push1(Fn0(<<Ret(Id("x"))>>))>>), F2>>,
  <<Def("fs", Arr(<<>>)), ForIn("_", "v", Arr(<<I(5), I(6)>>), <<Push1(Fn0(<<Ret(Id("v"))>>))>>), F2>>,
  <<Def("fs", Arr(<<>>)), ForIn("k", "_", Arr(<<I(5), I(6)>>), <<Push1(Fn0(<<Inc("k"), Ret(Id("k"))>>))>>), F2>>,
  <<Def("mk", Fn0(<<Def("n", I(0)), Ret(Fn0(<<Inc("n"), Ret(Id("n"))>>))>>)),
    Def("a", C0(Id("mk"))), Def("b", C0(Id("mk"))), Ret(Arr(<<C0(Id("a")), C0(Id("a")), C0(Id("b"))>>))>>,
  \* instances of one function literal with different captured variables calling each other in tail position: a
  \* pipeline of wrappers, and closures made in a loop calling their successor
  <<Def("mk", Fn(<<"k", "next">>, FALSE, <<Ret(Fn(<<"v">>, FALSE, <<If(Bin("==", Id("next"), U), <<Ret(Bin("+", Id("v"), Id("k")))>>, <<>>),
                                                                     Ret(C1(Id("next"), Bin("+", Id("v"), Id("k"))))>>))>>)),
    Def("c", Call(Id("mk"), <<I(1), Call(Id("mk"), <<I(10), Call(Id("mk"), <<I(100), U>>)>>)>>)), Ret(Arr(<<C1(Id("c"), I(0)), C1(Id("c"), I(5))>>))>>,
  <<Def("fs", Arr(<<>>)), For(<<Def("i", I(0))>>, Bin("<", Id("i"), I(3)), <<Inc("i")>>,
        <<Def("j", Id("i")), Push1(Fn(<<"acc">>, FALSE, <<If(Bin("==", Id("j"), I(2)), <<Ret(Bin("+", Id("acc"), S("c")))>>, <<>>),
                                                         Ret(C1(Idx(Id("fs"), Bin("+", Id("j"), I(1))), Bin("+", Id("acc"), S("x"))))>>))>>),
    Ret(Arr(<<C1(Idx(Id("fs"), I(0)), S("")), C1(Idx(Id("fs"), I(1)), S(""))>>))>>,
  <<Def("x", I(1)), Def("f", Fn0(<<Ret(Id("x"))>>)), Asg("x", I(2)), Ret(C0(Id("f")))>>,
  <<Var("h"), If(T, <<Def("a", I(1)), Asg("h", Fn0(<<Inc("a"), Ret(Id("a"))>>))>>, <<>>), If(T, <<Def("b", I(10)), Inc("b")>>, <<>>),
    Ret(Arr(<<C0(Id("h")), C0(Id("h"))>>))>>,
  <<Def("fs", Arr(<<>>)), For(<<Def("i", I(0))>>, Bin("<", Id("i"), I(2)), <<Inc("i")>>,
        <<Var("a"), If(Bin("==", Id("i"), I(0)), <<Asg("a", I(5))>>, <<>>), Push1(Fn0(<<Ret(Id("a"))>>))>>), F2>>,
  <<Def("x", I(0)), Def("f", Fn0(<<Def("g", Fn0(<<Def("h", Fn0(<<Inc("x"), Ret(Id("x"))>>)), Ret(C0(Id("h")))>>)), Ret(C0(Id("g")))>>)),
    Ret(Arr(<<C0(Id("f")), C0(Id("f")), Id("x")>>))>>,
  \* a block re-uses the slot of a closed block while a closure still holds the old variable
  <<Var("h"), Var("g"), If(T, <<Def("a", I(1)), Asg("h", Fn0(<<Ret(Id("a"))>>))>>, <<>>),
    If(T, <<Def("b", I(2)), Asg("g", Fn0(<<Ret(Id("b"))>>))>>, <<>>), Ret(Arr(<<C0(Id("h")), C0(Id("g"))>>))>>,
  \* parameter captured and updated
  <<Def("mk", Fn(<<"p">>, FALSE, <<Ret(Arr(<<Fn0(<<Inc("p"), Ret(Id("p"))>>), Fn0(<<Ret(Id("p"))>>)>>))>>)),
    Def("r", C1(Id("mk"), I(5))), Def("a", C0(Idx(Id("r"), I(0)))), Ret(Arr(<<Id("a"), C0(Idx(Id("r"), I(1)))>>))>>,
  \* three levels, middle level does not use the variable itself
  <<Def("f", Fn(<<"a">>, FALSE, <<Ret(Fn0(<<Ret(Fn0(<<Inc("a"), Ret(Id("a"))>>))>>))>>)),
    Def("g", C0(C1(Id("f"), I(7)))), Ret(Arr(<<C0(Id("g")), C0(Id("g"))>>))>>,
  \* shadowing inside a closure does not touch the captured variable
  <<Def("x", I(1)), Def("f", Fn0(<<Def("x", I(2)), Inc("x"), Ret(Id("x"))>>)), Ret(Arr(<<C0(Id("f")), Id("x")>>))>>,
  \* variable declared in a loop body is fresh per iteration even when assigned later
  <<Def("fs", Arr(<<>>)), ForIn("_", "v", Arr(<<I(1), I(2)>>), <<Var("t"), Asg("t", Bin("*", Id("v"), I(10))), Push1(Fn0(<<Inc("t"), Ret(Id("t"))>>))>>),
    Ret(Arr(<<C0(Idx(Id("fs"), I(0))), C0(Idx(Id("fs"), I(0))), C0(Idx(Id("fs"), I(1)))>>))>>
>>

(* --------------------------------------------------------------- calls *)
Params(k) == SubSeq(<<"p1", "p2", "p3">>, 1, k)
Ints(n) == [i \in 1..n |-> I(i)]
SpreadArr(m) == Arr([i \in 1..m |-> I(9 + i)])
CallProg(c) == <<Def("f", Fn(Params(c.k), c.va, <<Ret(Arr([i \in 1..c.k |-> Id(Params(c.k)[i])]))>>)),
                 Ret(IF c.sp = 0 THEN Call(Id("f"), Ints(c.n)) ELSE CallS(Id("f"), Ints(c.n) \o <<SpreadArr(c.sp - 1)>>))>>
CallIdx == {c \in [f : {"call"}, k : 0..3, va : BOOLEAN, n : 0..4, sp : 0..3] : c.va => c.k >= 1}

(* ---------------------------------------------------- recursion / tail *)
\* f(n): n = 0 -> 5 ; otherwise recursion in the given position
RecBody(kind) ==
  CASE kind = "tail"  -> <<If(Bin("==", Id("n"), I(0)), <<Ret(I(5))>>, <<>>), Ret(C1(Id("f"), Bin("-", Id("n"), I(1))))>>
    [] kind = "plus"  -> <<If(Bin("==", Id("n"), I(0)), <<Ret(I(5))>>, <<>>), Ret(Bin("+", I(1), C1(Id("f"), Bin("-", Id("n"), I(1)))))>>
    [] kind = "stmt"  -> <<If(Bin("==", Id("n"), I(0)), <<Ret(I(5))>>, <<>>), ExprS(C1(Id("f"), Bin("-", Id("n"), I(1))))>>
    [] kind = "stmtret" -> <<If(Bin("==", Id("n"), I(0)), <<Ret(I(5))>>, <<>>), ExprS(C1(Id("f"), Bin("-", Id("n"), I(1)))), Ret0>>
    [] kind = "cond"  -> <<Ret(Cond(Bin("==", Id("n"), I(0)), I(5), C1(Id("f"), Bin("-", Id("n"), I(1)))))>>
    [] kind = "try"   -> <<If(Bin("==", Id("n"), I(0)), <<Ret(I(5))>>, <<>>),
                           Try(<<Ret(C1(Id("f"), Bin("-", Id("n"), I(1))))>>, FALSE, "", <<>>, TRUE, <<Log(Id("n"))>>)>>
    [] kind = "acc"   -> <<If(Bin("==", Id("n"), I(0)), <<Ret(Id("a"))>>, <<>>), Ret(Call(Id("f"), <<Bin("-", Id("n"), I(1)), Bin("+", Id("a"), Id("n"))>>))>>
RecProg(c) == IF c.kind = "acc"
              THEN <<Var("f"), Asg("f", Fn(<<"n", "a">>, FALSE, RecBody("acc"))), Ret(Call(Id("f"), <<I(c.n), I(0)>>))>>
              ELSE <<Var("f"), Asg("f", Fn(<<"n">>, FALSE, RecBody(c.kind))), Ret(C1(Id("f"), I(c.n)))>>
RecIdx == [f : {"rec"}, kind : {"tail", "plus", "stmt", "stmtret", "cond", "try", "acc"}, n : {0, 1, 3}]

(* ------------------------------------------ assignment / evaluation order *)
Assign == <<
  \* right-hand side before the target of an index assignment
  <<Def("a", Arr(<<I(0), I(0)>>)), AsgI(Id("a"), Tap("i", I(1)), Tap("v", I(5))), Log(Id("a")), Ret(Id("a"))>>,
  \* (the target of an assignment must start with a name: a call result is rejected by the compiler)
  <<Def("m", MapL(<<"k">>, <<I(0)>>)), AsgI(Id("m"), Tap("i", S("k")), Tap("v", I(5))), Ret(Sel(Id("m"), "k"))>>,
  <<Def("m", MapL(<<"k", "n">>, <<I(0), MapL(<<"q">>, <<I(1)>>)>>)), AsgS(Idx(Id("m"), Tap("i", S("n"))), "z", Tap("v", I(6))),
    Ret(Arr(<<Sel(Id("m"), "k"), Sel(Sel(Id("m"), "n"), "z"), Sel(Sel(Id("m"), "n"), "q")>>))>>,
  \* arguments and operands left to right
  <<Def("f", Fn(<<"a", "b", "c">>, FALSE, <<Ret(Arr(<<Id("a"), Id("b"), Id("c")>>))>>)),
    Ret(Call(Id("f"), <<Tap("1", I(1)), Tap("2", I(2)), Tap("3", I(3))>>))>>,
  <<Ret(Bin("+", Bin("*", Tap("a", I(2)), Tap("b", I(3))), Tap("c", I(4))))>>,
  <<Ret(Arr(<<Tap("x", I(1)), Tap("y", I(2))>>))>>,
  <<Ret(Bin("||", Tap("l", I(0)), Tap("r", I(7))))>>, <<Ret(Bin("&&", Tap("l", I(0)), Tap("r", I(7))))>>,
  <<Ret(Bin("||", Tap("l", I(3)), Tap("r", I(7))))>>, <<Ret(Bin("&&", Tap("l", I(3)), Tap("r", I(7))))>>,
  \* compound assignment reads the left-hand side first
  <<Def("x", I(1)), Cmp("x", "+", C0(Fn0(<<Asg("x", I(10)), Ret(I(1))>>))), Ret(Id("x"))>>,
  <<Def("x", I(7)), Cmp("x", "-", I(2)), Cmp("x", "*", I(3)), Ret(Id("x"))>>,
  <<Def("s", S("a")), Cmp("s", "+", S("b")), Cmp("s", "+", I(1)), Ret(Id("s"))>>,
  \* plain assignment: right-hand side sees the old value
  <<Def("x", I(1)), Asg("x", Bin("+", Id("x"), Id("x"))), Ret(Id("x"))>>,
  \* selectors and indexes
  <<Def("m", MapL(<<"a", "b">>, <<I(1), MapL(<<"c">>, <<I(2)>>)>>)), AsgS(Sel(Id("m"), "b"), "c", I(9)),
    Ret(Arr(<<Sel(Id("m"), "a"), Sel(Sel(Id("m"), "b"), "c"), Idx(Id("m"), S("a")), Idx(Id("m"), S("nope"))>>))>>,
  <<Def("a", Arr(<<I(1), I(2), I(3)>>)), AsgI(Id("a"), I(1), Bin("+", Idx(Id("a"), I(0)), Idx(Id("a"), I(2)))), Ret(Id("a"))>>,
  <<Def("a", Arr(<<I(1)>>)), Ret(Idx(Id("a"), I(1)))>>, <<Def("a", Arr(<<I(1)>>)), AsgI(Id("a"), I(3), I(0)), Ret(Id("a"))>>,
  \* map values are shared by reference, a second name sees the update
  <<Def("m", MapL(<<"k">>, <<I(1)>>)), Def("n", Id("m")), AsgS(Id("n"), "k", I(2)), Ret(Sel(Id("m"), "k"))>>,
  \* var with initialiser, ternary
  <<VarI("x", I(3)), Def("y", Cond(Bin("<", Id("x"), I(5)), S("lt"), S("ge"))), Ret(Id("y"))>>
>>

(* ------------------------------------------------------- destructuring *)
DestrProg(c) ==
  LET src == CASE c.src = 0 -> Arr(<<>>) [] c.src = 1 -> Arr(<<I(1)>>) [] c.src = 2 -> Arr(<<I(1), I(2)>>)
               [] c.src = 3 -> Arr(<<I(1), I(2), I(3)>>) [] c.src = 4 -> I(5) [] c.src = 5 -> U
               [] c.src = 6 -> C0(Fn0(<<Ret(Arr(<<I(7), I(8)>>))>>))
               \* right-hand sides that share storage with a longer array: the padding must not reach it
               [] c.src = 7 -> Slice(Id("a"), -1, 1) [] c.src = 8 -> Slice(Id("a"), 1, 2) [] c.src = 9 -> Slice(Id("a"), -1, 0)
               [] c.src = 10 -> Id("b")
      names == SubSeq(<<"x", "y", "z">>, 1, c.nn)
      ids == [i \in 1..c.nn |-> Id(names[i])]
      \* a: the longer array; b: a shorter one derived from it
      pre == IF c.src < 7 THEN <<>>
             ELSE IF c.src < 10 THEN <<Def("a", Arr(<<I(1), I(2), I(3), I(4)>>))>>
             ELSE <<Def("a", Arr(<<I(1), I(2), I(3), I(4)>>)), Def("b", Slice(Id("a"), 1, 2))>>
      post == IF c.src < 7 THEN ids ELSE ids \o <<Id("a")>>
  IN IF c.def THEN pre \o <<Destr(names, TRUE, src), Ret(Arr(post))>>
     ELSE pre \o [i \in 1..c.nn |-> Def(names[i], I(100 + i))] \o <<Destr(names, FALSE, src), Ret(Arr(post))>>
DestrIdx == [f : {"destr"}, src : 0..10, nn : 2..3, def : BOOLEAN]

(* ---------------------------------------------------------- const/iota *)
ConstProgs == <<
  <<ConstG(<<"a", "b", "c">>, Id("iota")), Ret(Arr(<<Id("a"), Id("b"), Id("c")>>))>>,
  <<ConstG(<<"a", "b">>, Bin("+", Bin("*", Id("iota"), I(2)), I(1))), Ret(Arr(<<Id("a"), Id("b")>>))>>,
  <<Const("k", I(4)), Def("f", Fn0(<<Ret(Bin("+", Id("k"), I(1)))>>)), Ret(C0(Id("f")))>>,
  <<Def("f", Fn0(<<ConstG(<<"p", "q">>, Id("iota")), Ret(Arr(<<Id("p"), Id("q")>>))>>)), ConstG(<<"a">>, Id("iota")), Ret(Arr(<<C0(Id("f")), Id("a")>>))>>,
  <<Const("k", I(1)), If(T, <<Const("k", I(2)), Log(Id("k"))>>, <<>>), Ret(Id("k"))>>,
  <<ConstG(<<"a", "b", "c">>, Bin("+", S("s"), Id("iota"))), Ret(Arr(<<Id("a"), Id("c")>>))>>,
  \* a constant used in an expression, then shadowed by a block-local / loop / catch name used in an expression
  <<Const("x", I(10)), Def("a", Bin("+", Id("x"), I(10))), If(T, <<Def("x", I(40)), Log(Bin("+", Id("x"), I(10)))>>, <<>>), Ret(Arr(<<Id("a"), Bin("*", Id("x"), I(2))>>))>>,
  <<Const("x", I(10)), Def("a", Bin("*", Id("x"), I(2))), For(<<Def("x", I(0))>>, Bin("<", Id("x"), I(2)), <<Inc("x")>>, <<Log(Bin("+", Id("x"), I(100)))>>), Ret(Bin("+", Id("a"), Id("x")))>>,
  <<Const("x", I(7)), Def("a", Un("-", Id("x"))), ForIn("_", "x", Arr(<<I(1), I(2)>>), <<Log(Bin("*", Id("x"), I(3)))>>),
    Try(<<Thr(S("t"))>>, TRUE, "x", <<Log(C1(Id("isError"), Id("x")))>>, FALSE, <<>>), Ret(Arr(<<Id("a"), Bin("+", Id("x"), I(1))>>))>>,
  <<Def("f", Fn0(<<Const("k", I(3)), Def("a", Bin("+", Id("k"), I(1))), If(T, <<Def("k", S("s")), Ret(Arr(<<Id("a"), Bin("+", Id("k"), S("!"))>>))>>, <<>>), Ret(I(0))>>)), Ret(C0(Id("f")))>>
>>

(* --------------------------------------------------------------- loops *)
\* for i := 0; i < 4; i++ { if i == c.cj { continue }; if i == c.bj { break }; log(i) } ; post statement observable
LoopProg(c) ==
  LET guard(j, st) == IF j >= 0 THEN <<If(Bin("==", Id("i"), I(j)), <<st>>, <<>>)>> ELSE <<>>
      oguard(j, st) == IF j >= 0 THEN <<If(Bin("==", Id("o"), I(j)), <<st>>, <<>>)>> ELSE <<>>
      body == guard(c.cj, Cnt) \o guard(c.bj, Brk) \o <<Log(Id("i"))>>
  IN CASE c.kind = "for"   -> <<For(<<Def("i", I(0))>>, Bin("<", Id("i"), I(4)), <<Inc("i")>>, body), Ret(I(0))>>
       [] c.kind = "forin" -> <<ForIn("_", "i", Arr(<<I(0), I(1), I(2), I(3)>>), body), Ret(I(0))>>
       [] c.kind = "forinkey" -> <<ForIn("i", "_", Arr(<<S("a"), S("b"), S("c"), S("d")>>), body), Ret(I(0))>>
       [] c.kind = "nested" -> <<For(<<Def("o", I(0))>>, Bin("<", Id("o"), I(2)), <<Inc("o")>>,
                                     <<For(<<Def("i", I(0))>>, Bin("<", Id("i"), I(4)), <<Inc("i")>>, body), Log(S("outer"))>>), Ret(I(0))>>
       [] c.kind = "infn" -> <<Def("f", Fn0(<<For(<<Def("i", I(0))>>, Bin("<", Id("i"), I(4)), <<Inc("i")>>, body), Ret(S("done"))>>)), Ret(C0(Id("f")))>>
       \* continue / break of the OUTER loop written after a complete inner loop (the compiler keeps a stack of open loops:
       \* the outer loop's bookkeeping must survive the inner loop), two and three loops deep, for and for-in, in a function
       [] c.kind = "after" -> <<For(<<Def("o", I(0))>>, Bin("<", Id("o"), I(4)), <<Inc("o")>>,
                                    <<For(<<Def("i", I(0))>>, Bin("<", Id("i"), I(2)), <<Inc("i")>>, <<Log(Id("i"))>>)>> \o oguard(c.cj, Cnt) \o oguard(c.bj, Brk) \o <<Log(Id("o"))>>), Ret(I(0))>>
       [] c.kind = "afterin" -> <<Def("f", Fn0(<<ForIn("_", "o", Arr(<<I(0), I(1), I(2), I(3)>>),
                                    <<ForIn("_", "i", Arr(<<I(7), I(8)>>), <<Log(Id("i"))>>)>> \o oguard(c.cj, Cnt) \o oguard(c.bj, Brk) \o <<Log(Id("o"))>>), Ret(S("done"))>>)), Ret(C0(Id("f")))>>
       [] c.kind = "after3" -> <<For(<<Def("o", I(0))>>, Bin("<", Id("o"), I(4)), <<Inc("o")>>,
                                    <<For(<<Def("m", I(0))>>, Bin("<", Id("m"), I(2)), <<Inc("m")>>,
                                          <<ForIn("_", "i", Arr(<<I(7)>>), <<Log(Id("i"))>>), If(Bin("==", Id("m"), I(1)), <<Brk>>, <<>>), Log(S("mid"))>>)>>
                                    \o oguard(c.cj, Cnt) \o oguard(c.bj, Brk) \o <<Log(Id("o"))>>), Ret(I(0))>>
LoopIdx == [f : {"loop"}, kind : {"for", "forin", "forinkey", "nested", "infn", "after", "afterin", "after3"}, cj : -1..3, bj : -1..3]

(* ------------------------------------------- C01: shadowing of builtins *)
G == Def("g", Fn(<<"x">>, FALSE, <<Ret(Bin("+", S("g:"), Id("x")))>>))
ShadowNames == {"int", "string", "len", "bool", "typeName"}
\* a use of the name with constant arguments: foldable when the name is the builtin
UseOf(nm) == CASE nm = "int" -> C1(Id("int"), S("7")) [] nm = "string" -> C1(Id("string"), I(7))
               [] nm = "len" -> C1(Id("len"), S("ab")) [] nm = "bool" -> C1(Id("bool"), I(1))
               [] nm = "typeName" -> C1(Id("typeName"), I(1))
ShadowProg(nm, i) ==
  LET UU == UseOf(nm) IN
  CASE i = 1  -> <<G, Def(nm, Id("g")), Ret(UU)>>
    [] i = 2  -> <<G, Var(nm), Asg(nm, Id("g")), Ret(UU)>>
    [] i = 3  -> <<G, Const(nm, Id("g")), Ret(UU)>>
    [] i = 4  -> <<G, Def(nm, Id("g")), Def("f", Fn0(<<Ret(UU)>>)), Ret(C0(Id("f")))>>
    [] i = 5  -> <<G, Def("w", Fn0(<<Def("f", Fn0(<<Ret(UU)>>)), Def(nm, Id("g")), Ret(Arr(<<C0(Id("f")), UU>>))>>)), Ret(C0(Id("w")))>>
    [] i = 6  -> <<G, If(T, <<Def(nm, Id("g")), ExprS(Id(nm))>>, <<>>), Ret(UU)>>
    [] i = 7  -> <<G, If(T, <<Def(nm, Id("g"))>>, <<>>), Ret(UU)>>
    [] i = 8  -> <<G, Def("f", Fn(<<nm>>, FALSE, <<Ret(UU)>>)), Ret(C1(Id("f"), Id("g")))>>
    [] i = 9  -> <<G, ForIn("_", nm, Arr(<<Id("g")>>), <<Ret(UU)>>)>>
    [] i = 10 -> <<G, ForIn(nm, "_", Arr(<<Id("g")>>), <<Ret(Arr(<<Id(nm)>>))>>)>>
    [] i = 11 -> <<G, Try(<<Thr(S("e"))>>, TRUE, nm, <<Ret(Arr(<<Id(nm)>>))>>, FALSE, <<>>)>>
    [] i = 12 -> <<G, Try(<<Thr(S("e"))>>, TRUE, nm, <<>>, TRUE, <<Ret(Arr(<<Id(nm)>>))>>)>>
    [] i = 13 -> <<G, For(<<Def(nm, Id("g"))>>, T, <<>>, <<Ret(UU)>>)>>
    [] i = 14 -> <<G, Def(nm, Id("g")), Def("f", Fn0(<<Ret(Fn0(<<Ret(UU)>>))>>)), Ret(C0(C0(Id("f"))))>>
    [] i = 15 -> <<G, Def("f", Fn0(<<Def(nm, Id("g")), Ret(UU)>>)), Ret(Arr(<<C0(Id("f")), UU>>))>>
    [] i = 16 -> <<G, Def("f", Fn(<<nm>>, FALSE, <<Ret(Fn0(<<Ret(UU)>>))>>)), Ret(C0(C1(Id("f"), Id("g"))))>>
    [] i = 17 -> <<G, Def(nm, Id("g")), Const("k", UU), Ret(Id("k"))>>
    [] i = 18 -> <<G, Def("w", Fn0(<<Def("x", UU), Def(nm, Id("g")), Ret(Arr(<<Id("x"), UU>>))>>)), Ret(C0(Id("w")))>>
    [] i = 19 -> <<G, Try(<<Def(nm, Id("g"))>>, FALSE, "", <<>>, TRUE, <<Ret(UU)>>)>>
    [] i = 20 -> <<G, Def("f", Fn(<<"a">>, TRUE, <<ForIn("_", nm, Id("a"), <<Ret(UU)>>), Ret(UU)>>)), Ret(Arr(<<C1(Id("f"), Id("g")), C0(Id("f"))>>))>>
    [] i = 21 -> <<Param(<<nm>>), G, Ret(Arr(<<IF nm = "len" THEN I(0) ELSE UU>>))>>     \* param shadows (args: none -> undefined)
    [] i = 22 -> <<G, Destr(<<nm, "zz">>, TRUE, Arr(<<Id("g"), I(1)>>)), Ret(UU)>>
    [] i = 23 -> <<G, ForIn("_", nm, Arr(<<Id("g")>>), <<Def("f", Fn0(<<Ret(UU)>>)), Ret(C0(Id("f")))>>)>>
    [] i = 24 -> <<G, Try(<<Thr(S("e"))>>, TRUE, nm, <<Asg(nm, Id("g")), Ret(UU)>>, FALSE, <<>>)>>
    [] i = 25 -> <<G, Def("r", UU), Ret(Arr(<<Id("r"), UU>>))>>       \* no shadowing at all: folding must give the builtin's value
    [] i = 26 -> <<G, Def("f", Fn0(<<Ret(UU)>>)), Ret(Arr(<<C0(Id("f")), Cond(T, UU, I(0))>>))>>
    \* a constant in scope makes the compiler fold expressions that mention it (second folding path)
    [] i = 27 -> <<G, Def(nm, Id("g")), Const("k", S("!")), If(T, <<Ret(Bin("+", UU, Id("k")))>>, <<>>), Ret(I(0))>>
    [] i = 28 -> <<G, Def(nm, Id("g")), Const("k", S("!")), For(<<Def("i", I(0))>>, Bin("<", Id("i"), I(1)), <<Inc("i")>>, <<Ret(Bin("+", UU, Id("k")))>>), Ret(I(0))>>
    [] i = 29 -> <<G, Def(nm, Id("g")), Const("k", S("!")), Try(<<Ret(Bin("+", UU, Id("k")))>>, FALSE, "", <<>>, TRUE, <<>>)>>
    [] i = 30 -> <<G, Const("k", S("!")), Def("f", Fn(<<nm>>, FALSE, <<If(T, <<Ret(Bin("+", UU, Id("k")))>>, <<>>), Ret(I(0))>>)), Ret(C1(Id("f"), Id("g")))>>
    [] i = 31 -> <<G, Const("k", S("!")), Def(nm, Id("g")), Ret(Bin("+", UU, Id("k")))>>
    [] i = 32 -> <<G, Def("f", Fn0(<<Const("k", S("!")), Def(nm, Id("g")), If(T, <<If(T, <<Ret(Bin("+", UU, Id("k")))>>, <<>>)>>, <<>>), Ret(I(0))>>)), Ret(C0(Id("f")))>>
    [] i = 33 -> <<G, Const("k", S("!")), If(T, <<Def(nm, Id("g")), Ret(Bin("+", UU, Id("k")))>>, <<>>), Ret(I(0))>>
    [] i = 34 -> <<G, Const("k", S("!")), Ret(Arr(<<UU, Id("k")>>))>>      \* no shadowing, const path folds the builtin
    \* no shadowing, a constant in scope, the use inside a unary expression of a nested function / block (the optimizer
    \* evaluates it from the nested scope)
    [] i = 35 -> <<G, Const("k", I(2)), Def("f", Fn0(<<Ret(Arr(<<Un("!", UU), Id("k")>>))>>)), Ret(C0(Id("f")))>>
    [] i = 36 -> <<G, Const("k", I(2)), If(T, <<Ret(Arr(<<Un("!", UU), Bin("+", Id("k"), I(1))>>))>>, <<>>), Ret(I(0))>>
    \* the catch identifier is visible in the finally block of its statement
    [] i = 37 -> <<G, Try(<<Thr(S("e"))>>, TRUE, nm, <<Asg(nm, Id("g"))>>, TRUE, <<Ret(UU)>>)>>
    [] i = 38 -> <<G, Try(<<Thr(S("e"))>>, TRUE, nm, <<Asg(nm, Id("g"))>>, TRUE, <<Try(<<Ret(UU)>>, TRUE, "e2", <<Ret(S("c"))>>, FALSE, <<>>)>>)>>
    \* the builtin is used in a folded expression first, re-bound afterwards, and the new meaning used in a later folded expression
    [] i = 39 -> <<G, Const("k", I(1)), Def("a", Bin("==", UU, Id("k"))), Def(nm, Id("g")), Ret(Arr(<<Id("a"), Bin("==", UU, Id("k")), UU>>))>>
    [] i = 40 -> <<G, Const("k", I(1)), Def("w", Fn0(<<Def("a", Bin("==", UU, Id("k"))), Var(nm), Asg(nm, Id("g")), Ret(Arr(<<Id("a"), Bin("==", UU, Id("k"))>>))>>)), Ret(C0(Id("w")))>>
    \* the name is re-bound at top level / as parameter of the enclosing function; an inner function that binds nothing itself
    \* uses it in an expression with a literal constant (the compiler's own folding pass decides from the inner scope)
    [] i = 41 -> <<G, Const("k", I(1)), Def(nm, Id("g")), Def("f", Fn0(<<Ret(Arr(<<Bin("==", UU, Id("k")), Un("!", UU)>>))>>)), Ret(C0(Id("f")))>>
    [] i = 42 -> <<G, Const("k", I(1)), Def("w", Fn(<<nm>>, FALSE, <<Def("f", Fn0(<<Ret(Bin("==", UU, Id("k")))>>)), Ret(C0(Id("f")))>>)), Ret(C1(Id("w"), Id("g")))>>
NShadow == 42
\* forms whose meaning (a param without argument) cannot be called with UU
ShadowIdx == {x \in [f : {"shadow"}, nm : ShadowNames, i : 1..NShadow] : ~(x.i = 21)} \cup [f : {"shadow"}, nm : {"len"}, i : {21}]

(* ----------------------------------------------------- C01: folding *)
RawL(src, falsy) == Lit([t |-> "raw", src |-> src, falsy |-> falsy])
FoldVals == <<I(0), I(1), I(2), I(7), Un("-", I(1)), S(""), S("a"), T, F, U,
              RawL("0.0", FALSE), RawL("1.5", FALSE), RawL("2.0", FALSE), RawL("0u", TRUE), RawL("3u", FALSE), RawL("'a'", FALSE), RawL("'\\x00'", TRUE)>>
FoldOps == <<"+", "-", "*", "/", "==", "!=", "<", ">", "&&", "||", "%", "<<", ">>", "&", "|", "^", "&^", "<=", ">=">>
\* where the constant expression sits: returned, in a function that is called, in dead code
FoldProg(c) ==
  LET e == Bin(FoldOps[c.op], FoldVals[c.a], FoldVals[c.b])
      ke == Bin(FoldOps[c.op], Id("k"), FoldVals[c.b]) IN
  CASE c.pos = "ret"  -> <<Ret(e)>>
    [] c.pos = "fn"   -> <<Def("f", Fn0(<<Ret(e)>>)), Ret(C0(Id("f")))>>
    [] c.pos = "dead" -> <<Def("f", Fn0(<<Ret(e)>>)), Ret(I(3))>>
    [] c.pos = "iff"  -> <<If(F, <<Ret(e)>>, <<>>), Ret(I(4))>>
    [] c.pos = "var"  -> <<Def("x", FoldVals[c.a]), Ret(Bin(FoldOps[c.op], Id("x"), FoldVals[c.b]))>>
    \* the left operand is a literal constant (the compiler substitutes and folds such expressions itself, while
    \* compiling): in an expression used twice, in the index of a compound assignment (compiled for the read and
    \* again for the write), repeated implicitly in a constant group, in a function compiled after the first use
    [] c.pos = "ktwice" -> <<Const("k", FoldVals[c.a]), Def("p", ke), Ret(Arr(<<Id("p"), ke>>))>>
    [] c.pos = "kidx"   -> <<Const("k", FoldVals[c.a]), Def("arr", Arr(<<I(10), I(20), I(30), I(40)>>)), CmpI(Id("arr"), ke, "+", I(5)), Ret(Arr(<<Id("arr"), ke>>))>>
    [] c.pos = "kgroup" -> <<Const("k", FoldVals[c.a]), ConstG(<<"p", "q", "r">>, ke), Ret(Arr(<<Id("p"), Id("q"), Id("r"), ke>>))>>
    [] c.pos = "kfn"    -> <<Const("k", FoldVals[c.a]), Def("arr", Arr(<<I(10), I(20), I(30)>>)), Def("f", Fn0(<<CmpI(Id("arr"), ke, "-", I(1)), Ret(Arr(<<Id("arr"), ke>>))>>)), Ret(Arr(<<C0(Id("f")), C0(Id("f"))>>))>>
FoldIdx == [f : {"fold"}, op : 1..Len(FoldOps), a : 1..Len(FoldVals), b : 1..Len(FoldVals), pos : {"ret", "fn", "dead", "iff", "var"}]
           \cup [f : {"fold"}, op : 1..Len(FoldOps), a : {1, 2, 3, 4, 5, 7, 11, 15}, b : {1, 2, 3, 5, 7, 12, 15}, pos : {"ktwice", "kidx", "kgroup", "kfn"}]
\* does the constant expression itself raise an error when evaluated (the optimizer may then refuse the script)
FoldRaises(c) == LET r == RunP(P0(<<Ret(Bin(FoldOps[c.op], FoldVals[c.a], FoldVals[c.b]))>>)) IN r.o[1] = "thr"

(* ------------------------------------ C02: scope structures, combinatorially *)
\* Every arrangement of declarations / assignments / reads of the names a, b and len (also a builtin)
\* around and inside one container - a block, a function, a loop body, nestings of two of them, a
\* function called twice: which declaration a name means, which variable a closure captures, that a
\* declaration executed again is a new variable, that slots of dead block variables are re-used without
\* being seen.  Each declaration stores a number of its own, so the logged reads identify the variable.
ScLeaf(k, base) == CASE k = 1 -> Def("a", I(base + 1)) [] k = 2 -> Def("b", I(base + 2)) [] k = 3 -> Def("len", I(base + 3))
                     [] k = 4 -> Asg("a", Bin("+", Id("a"), I(100))) [] k = 5 -> Asg("b", Bin("+", Id("b"), I(100)))
                     [] k = 6 -> Log(Id("a")) [] k = 7 -> Log(Id("b")) [] k = 8 -> Log(C1(Id("typeName"), Id("len")))
                     [] k = 9 -> Var("b")          \* declaration without a value: the variable is undefined, whatever its slot held before
\* a body of up to two leaf statements: <<>>, <<k>>, <<k1, k2>>
ScBody(q, base) == IF q[1] = 0 THEN <<>> ELSE IF q[2] = 0 THEN <<ScLeaf(q[1], base)>> ELSE <<ScLeaf(q[1], base), ScLeaf(q[2], base + 5)>>
ScBodies == {<<0, 0>>} \cup {<<k, 0>> : k \in 1..9} \cup {<<k1, k2>> : k1 \in 1..9, k2 \in 1..9}
ScPre == {<<0, 0>>, <<1, 0>>, <<2, 0>>, <<3, 0>>, <<1, 2>>, <<8, 3>>}
ScMid == {<<0, 0>>, <<1, 0>>, <<6, 0>>, <<4, 0>>}
ScPost == {<<6, 0>>, <<7, 0>>, <<8, 0>>, <<6, 7>>}
\* tail: statements after the inner container, still inside the outer one (its variables may get slots the inner block used)
ScWrap(kind, mid, inner, tail) ==
  CASE kind = 1 -> <<If(T, mid \o inner, <<>>)>>
    [] kind = 2 -> <<Def("f", Fn0(mid \o inner)), ExprS(C0(Id("f")))>>
    [] kind = 3 -> <<Def("f", Fn0(mid \o <<If(T, inner, <<>>)>> \o tail)), ExprS(C0(Id("f")))>>
    [] kind = 4 -> <<If(T, mid \o <<Def("f", Fn0(inner)), ExprS(C0(Id("f")))>> \o tail, <<>>)>>
    [] kind = 5 -> <<Def("f", Fn0(mid \o <<Def("g", Fn0(inner)), ExprS(C0(Id("g")))>> \o tail)), ExprS(C0(Id("f")))>>
    [] kind = 6 -> <<For(<<Def("i", I(0))>>, Bin("<", Id("i"), I(2)), <<Inc("i")>>, mid \o inner)>>
    [] kind = 7 -> <<Def("f", Fn0(mid \o inner)), ExprS(C0(Id("f"))), ExprS(C0(Id("f")))>>
ScTail == {<<0, 0>>, <<9, 7>>, <<2, 7>>, <<9, 6>>}
ScProg(c) == ScBody(c.pre, 10) \o ScWrap(c.kind, ScBody(c.mid, 20), ScBody(c.inner, 30), ScBody(c.tail, 40)) \o ScBody(c.post, 50) \o <<Ret(I(0))>>
ScIdx == [f : {"scope"}, kind : {1, 2, 6, 7}, pre : ScPre, mid : ScMid, inner : ScBodies, tail : {<<0, 0>>}, post : ScPost]
         \cup [f : {"scope"}, kind : {3, 4, 5}, pre : ScPre, mid : ScMid, inner : ScBodies, tail : ScTail, post : ScPost]
\* only programs every name of which is declared where it is used (the others are compile errors)
\* two declarations of one name in the same scope are a compile error ("redeclared in this block")
ScDeclName(k) == CASE k = 1 -> "a" [] k \in {2, 9} -> "b" [] k = 3 -> "len" [] OTHER -> ""
ScDefs(q) == {ScDeclName(q[i]) : i \in 1..2} \ {""}
ScNoRedecl(c) == /\ ~(ScDeclName(c.inner[1]) # "" /\ ScDeclName(c.inner[1]) = ScDeclName(c.inner[2]))
                 /\ (c.kind \in {1, 2, 6, 7} => ScDefs(c.mid) \cap ScDefs(c.inner) = {})
ScValid(c) == ScNoRedecl(c) /\ LET r == RunP(P0(ScProg(c))) IN ~(r.o[1] = "thr" /\ r.o[2].name \in {"unresolved", "unmodelled-op", "unmodelled-builtin-call", "TypeError"})

(* ------------------------------- C01: constant expressions beyond the reference *)
\* Expressions the optimizer may evaluate at compile time but the reference fragment does not model:
\* unary operators, builtin calls with constant arguments (incl. the printing ones), indexing /
\* slicing / selecting from literal containers, nested constant expressions.  They are rendered from
\* source text (a "raw" literal); the meaning of a script is its optimizer-off run.
XLits == <<"0", "1", "-1", "7", "0u", "3u", "0.0", "1.5", "'a'", "'\\x00'", "\"\"", "\"a\"", "\"12\"", "true", "false", "undefined",
           "[]", "[1, 2]", "{}", "{a: 1}", "bytes(\"ab\")", "error(\"e\")">>
XUnOps == <<"-", "+", "!", "^">>
XCalls1 == <<"len", "int", "uint", "float", "char", "string", "bool", "typeName", "bytes", "error", "chars", "copy", "sprintf", "println", "printf",
             "isInt", "isUint", "isFloat", "isChar", "isBool", "isString", "isBytes", "isMap", "isArray", "isUndefined", "isFunction", "isCallable",
             "isIterable", "isError", "isSyncMap">>
XCalls2 == <<"contains", "append", "repeat", "sprintf">>
XIdx == <<"[1, 2]", "\"abc\"", "bytes(\"abc\")", "{a: 1}", "[[1], [2]]", "undefined", "7">>
XKeys == <<"0", "1", "5", "-1", "\"a\"", "1.5", "undefined", "0u">>
XFixed == <<"(1 + 2) * 3 - len(\"ab\")", "1 + 2 == 3 && \"a\" < \"b\" ? 10 : 20", "[1, 2, 3][1:]", "\"abc\"[:2]", "\"abc\"[1:5]", "[1, 2][2:1]", "{a: {b: 2}}.a.b", "{a: 1}.b.c",
            "undefined.x", "[1][0][0]", "len([1, 2]) + len(\"ab\")", "int(\"12\") + 1", "string(1) + string('a')", "-(-(1))", "!!1", "!(1 > 2)", "1 << 2 >> 1",
            "7 % 0", "7u % 0u", "1 << -1", "\"a\" * 2", "'a' + 1", "'a' - 'b'", "1 / 2.0", "5 / 2", "-7 / 2", "-7 % 3", "1 - 2u", "3u - 5", "0.1 + 0.2", "1e308 * 10.0",
            "9223372036854775807 + 1", "-9223372036854775807 - 2", "1 << 63", "1 << 64", "255u << 60", "'a' < 98", "\"a\" + 1", "\"a\" + 1.5", "\"a\" + 'b'", "[1] + [2]", "[1] + 2",
            "{a: 1} == {a: 1}", "[1, 2] == [1, 2]", "[1] == [1.0]", "undefined == false", "1 == 1.0", "1 == 1u", "'a' == 97", "\"1\" == 1", "true == 1", "true + true", "true && \"x\"", "0 || \"\" || 'a'",
            \* zero and negative zero in one constant pool
            "[0.0, -0.0]", "[-0.0, 0.0]", "sprintf(\"%v %v %v\", 0.0, -0.0, 0.0 * -1.0)", "1.0 / -0.0 < 0.0 ? \"neg\" : \"pos\"", "[0.0, 1.0 / (0.0 * -1.0)]">>
XExpr(c) == CASE c.k = "un"    -> XUnOps[c.a] \o " " \o XLits[c.b]
              [] c.k = "call1" -> XCalls1[c.a] \o "(" \o XLits[c.b] \o ")"
              [] c.k = "call2" -> XCalls2[c.a] \o "(" \o XLits[c.b] \o ", " \o XLits[c.d] \o ")"
              [] c.k = "idx"   -> XIdx[c.a] \o "[" \o XKeys[c.b] \o "]"
              [] c.k = "fixed" -> XFixed[c.a]
\* the same with the (first) operand held in a variable: nothing to fold, the VM evaluates
XExprVar(c) == CASE c.k = "un"    -> XUnOps[c.a] \o "xv"
                 [] c.k = "call1" -> XCalls1[c.a] \o "(xv)"
                 [] c.k = "call2" -> XCalls2[c.a] \o "(xv, " \o XLits[c.d] \o ")"
                 [] c.k = "idx"   -> XIdx[c.a] \o "[xv]"
                 [] c.k = "fixed" -> XFixed[c.a]
XVarInit(c) == IF c.k = "idx" THEN XKeys[c.b] ELSE IF c.k = "fixed" THEN "0" ELSE XLits[c.b]
XProg(c) ==
  LET e == RawL(XExpr(c), FALSE) IN
  CASE c.pos = "ret"  -> <<Ret(e)>>
    [] c.pos = "fn"   -> <<Def("f", Fn0(<<Ret(e)>>)), Ret(C0(Id("f")))>>
    [] c.pos = "dead" -> <<Def("f", Fn0(<<Ret(e)>>)), Ret(I(3))>>
    [] c.pos = "iff"  -> <<If(F, <<Ret(e)>>, <<>>), Ret(I(4))>>
    [] c.pos = "var"  -> <<Def("xv", RawL(XVarInit(c), FALSE)), Ret(RawL(XExprVar(c), FALSE))>>
XPos == {"ret", "fn", "dead", "iff", "var"}
XIdxSet == [f : {"xfold"}, k : {"un"}, a : 1..Len(XUnOps), b : 1..Len(XLits), d : {1}, pos : XPos]
      \cup [f : {"xfold"}, k : {"call1"}, a : 1..Len(XCalls1), b : 1..Len(XLits), d : {1}, pos : XPos]
      \cup [f : {"xfold"}, k : {"call2"}, a : 1..Len(XCalls2), b : 1..Len(XLits), d : 1..Len(XLits), pos : {"ret", "iff", "var"}]
      \cup [f : {"xfold"}, k : {"idx"}, a : 1..Len(XIdx), b : 1..Len(XKeys), d : {1}, pos : XPos]
      \cup [f : {"xfold"}, k : {"fixed"}, a : 1..Len(XFixed), b : {1}, d : {1}, pos : {"ret", "fn", "dead", "iff"}]

(* ----------------------------------------------- C01: literal conditions *)
Raw(src, falsy) == Lit([t |-> "raw", src |-> src, falsy |-> falsy])
CondLits == <<I(0), I(1), S(""), S("a"), T, F, U, Raw("0u", TRUE), Raw("1u", FALSE), Raw("0.0", FALSE), Raw("1.5", FALSE),
              Raw("'\\x00'", TRUE), Raw("'a'", FALSE), Arr(<<>>), Arr(<<I(0)>>)>>
CondProg(c) ==
  LET x == CondLits[c.l] IN
  CASE c.form = "if"    -> <<If(x, <<Log(S("then")), Ret(I(1))>>, <<Log(S("else")), Ret(I(2))>>)>>
    [] c.form = "ifnot" -> <<If(Un("!", x), <<Ret(I(1))>>, <<Ret(I(2))>>)>>
    [] c.form = "tern"  -> <<Ret(Cond(x, Tap("a", I(1)), Tap("b", I(2))))>>
    [] c.form = "and"   -> <<Ret(Arr(<<Un("!", Un("!", Bin("&&", x, Tap("r", I(7)))))>>))>>
    [] c.form = "or"    -> <<Ret(Arr(<<Un("!", Un("!", Bin("||", x, Tap("r", I(0)))))>>))>>
    [] c.form = "loop"  -> <<For(<<Def("i", I(0))>>, x, <<Inc("i")>>, <<If(Bin(">", Id("i"), I(1)), <<Brk>>, <<>>), Log(Id("i"))>>), Ret(I(9))>>
    [] c.form = "elif"  -> <<If(F, <<Ret(I(0))>>, <<If(x, <<Ret(I(1))>>, <<Ret(I(2))>>)>>)>>
CondIdx == [f : {"cond"}, l : 1..Len(CondLits), form : {"if", "ifnot", "tern", "and", "or", "loop", "elif"}]

(* ------------------------------------------ C13: disabled builtins *)
DisNames == {"int", "len", "string"}
DisIdx == [f : {"dis"}, nm : DisNames, i : (1..NShadow) \ {21}, d : SUBSET DisNames]
\* module variants: where the use sits
ModUse(nm) == <<Ret(MapL(<<"v">>, <<UseOf(nm)>>))>>
ModShadow(nm) == <<Def(nm, Fn(<<"x">>, FALSE, <<Ret(S("sh"))>>)), Ret(MapL(<<"v">>, <<UseOf(nm)>>))>>
DisModProg(c) ==
  CASE c.v = 1 -> [P0(<<Ret(Sel(Import("m"), "v"))>>) EXCEPT !.mods = [x \in {"m"} |-> ModUse(c.nm)]]
    [] c.v = 2 -> [P0(<<Ret(Sel(Import("m"), "v"))>>) EXCEPT !.mods = [x \in {"m"} |-> ModShadow(c.nm)]]
    [] c.v = 3 -> [P0(<<Def(c.nm, I(1)), Ret(Arr(<<Sel(Import("m"), "v"), Id(c.nm)>>))>>) EXCEPT !.mods = [x \in {"m"} |-> ModUse(c.nm)]]
    [] c.v = 4 -> [P0(<<Def("f", Fn0(<<Ret(Sel(Import("m"), "v"))>>)), Ret(I(1))>>) EXCEPT !.mods = [x \in {"m"} |-> ModUse(c.nm)]]
    [] c.v = 5 -> [P0(<<Const("k", UseOf(c.nm)), Ret(Id("k"))>>) EXCEPT !.mods = <<>>]
    [] c.v = 6 -> [P0(<<Ret(Sel(Import("m"), "v"))>>) EXCEPT !.mods = [x \in {"m"} |-> <<Const("k", UseOf(c.nm)), Ret(MapL(<<"v">>, <<Id("k")>>))>>]]
    [] c.v = 7 -> [P0(<<If(F, <<Ret(UseOf(c.nm))>>, <<>>), Ret(I(2))>>) EXCEPT !.mods = <<>>]
    [] c.v = 8 -> [P0(<<Def("h", Id(c.nm)), Ret(I(3))>>) EXCEPT !.mods = <<>>]      \* obtaining the builtin as a value
DisModIdx == [f : {"dismod"}, nm : DisNames, v : 1..8, d : SUBSET DisNames]

(* ------------------------------------------------- C12: import graphs *)
\* a module imports its dependencies (binding them), and returns a fresh mutable map
\* {n: name, c: 0, d1: <first dependency's object>, d2: ...}
\* (lazy: the import expression stands inside a function literal the module calls at once - the import edge then
\*  leaves a function of the module, not its top level)
ModBody(name, deps, lazy) ==
  [i \in 1..Len(deps) |-> Def("x" \o ToString(i), IF lazy THEN C0(Fn0(<<Ret(Import(deps[i]))>>)) ELSE Import(deps[i]))]
  \* (put / get: two functions of the module sharing a container variable of the module body)
  \o <<Def("st", MapL(<<"v">>, <<I(0)>>)),
       Ret(MapL(<<"n", "c", "put", "get">> \o [i \in 1..Len(deps) |-> "d" \o ToString(i)],
                <<S(name), I(0), Fn(<<"x">>, FALSE, <<AsgS(Id("st"), "v", Id("x")), Ret(Id("x"))>>), Fn0(<<Ret(Sel(Id("st"), "v"))>>)>>
                \o [i \in 1..Len(deps) |-> Id("x" \o ToString(i))]))>>
\* graph number -> dependencies of m1, m2, m3
GraphDeps(g) == CASE g = 1 -> << <<>>, <<>>, <<>> >>
                  [] g = 2 -> << <<"m2">>, <<>>, <<>> >>
                  [] g = 3 -> << <<"m3">>, <<"m3">>, <<>> >>          \* diamond below main
                  [] g = 4 -> << <<"m2">>, <<"m3">>, <<>> >>          \* chain
                  [] g = 5 -> << <<"m2">>, <<"m1">>, <<>> >>          \* cycle of length 2
                  [] g = 6 -> << <<"m1">>, <<>>, <<>> >>              \* module importing itself
                  [] g = 7 -> << <<"nope">>, <<>>, <<>> >>            \* unknown module
                  [] g = 8 -> << <<"m2", "m3">>, <<"m3">>, <<>> >>
                  [] g = 9 -> << <<"m2">>, <<"m3">>, <<"m1">> >>      \* cycle of length 3
                  [] g = 10 -> << <<"m2">>, <<"m1">>, <<>> >>         \* cycle of length 2, every edge inside a function literal
                  [] g = 11 -> << <<"m2">>, <<"m3">>, <<"m1">> >>     \* cycle of length 3, two of its edges inside function literals
                  [] g = 12 -> << <<"m2">>, <<"m3">>, <<>> >>         \* chain through function literals
LazyMods(g) == CASE g = 10 -> {"m1", "m2"} [] g = 11 -> {"m1", "m3"} [] g = 12 -> {"m1", "m2"} [] OTHER -> {}
GraphBad(g) == g \in {5, 6, 7, 9, 10, 11}
BmBody == <<Ret(MapL(<<"x", "lim">>, <<I(10), MapL(<<"max">>, <<I(10)>>)>>))>>
ModsOf(g) == LET d == GraphDeps(g) IN
             [x \in {"m1", "m2", "m3", "bm"} |-> IF x = "bm" THEN BmBody ELSE ModBody(x, d[CASE x = "m1" -> 1 [] x = "m2" -> 2 [] x = "m3" -> 3], x \in LazyMods(g))]
ModMain(site) ==
  CASE site = 1 -> <<Def("a", Import("m1")), Def("b", Import("m1")), AsgS(Id("a"), "c", I(5)), Ret(Arr(<<Sel(Id("b"), "c"), Sel(Id("a"), "n")>>))>>
    [] site = 2 -> <<Def("f", Fn0(<<Ret(Import("m1"))>>)), Def("x", C0(Id("f"))), AsgS(Id("x"), "c", I(7)),
                     Ret(Arr(<<Sel(C0(Id("f")), "c"), Sel(Import("m1"), "c")>>))>>
    [] site = 3 -> <<If(T, <<Def("a", Import("m1")), AsgS(Id("a"), "c", I(1))>>, <<>>),
                     ForIn("_", "v", Arr(<<I(1), I(2)>>), <<Def("b", Import("m1")), Cmp("v", "+", Sel(Id("b"), "c")), Log(Id("v"))>>),
                     If(F, <<Def("z", Import("m2"))>>, <<Def("z", Import("m1"))>>), Ret(Sel(Import("m1"), "c"))>>
    [] site = 4 -> <<Def("f", Fn0(<<Ret(Import("m2"))>>)), Ret(I(1))>>
    [] site = 5 -> <<Def("a", Import("m1")), Def("b", Import("m2")), Def("c", Import("m3")), AsgS(Id("c"), "c", I(9)),
                     \* (the value a module returns is copied when it is cached, so identity is probed
                     \*  through import expressions only, not through objects embedded in other modules' values)
                     Def("g", Fn0(<<Ret(Sel(Import("m3"), "c"))>>)),
                     Ret(Arr(<<Sel(Id("a"), "n"), Sel(Id("b"), "n"), Sel(Id("c"), "c"), C0(Id("g")),
                               Cond(Bin("==", Sel(Id("a"), "d1"), U), S("-"), Sel(Sel(Id("a"), "d1"), "n")),
                               Cond(Bin("==", Sel(Id("b"), "d1"), U), S("-"), Sel(Sel(Id("b"), "d1"), "n"))>>))>>
    [] site = 6 -> <<Def("b", Import("m2")), Def("a", Import("m1")),
                     Ret(Arr(<<Sel(Id("a"), "n"), Cond(Bin("==", Sel(Id("a"), "d1"), U), S("-"), Sel(Sel(Id("a"), "d1"), "n"))>>))>>
    \* the first import of the module executes inside a function run by the host through an Invoker
    [] site = 7 -> <<Global(<<"cbcall">>), Def("f", Fn(<<"v">>, FALSE, <<Def("m", Import("m1")), AsgS(Id("m"), "c", Bin("+", Sel(Id("m"), "c"), Id("v"))), Ret(Sel(Id("m"), "c"))>>)),
                     Def("a", Call(Id("cbcall"), <<Id("f"), I(1)>>)), Def("b", Call(Id("cbcall"), <<Id("f"), I(2)>>)),
                     Ret(Arr(<<Id("a"), Id("b"), Sel(Import("m1"), "c"), C1(Id("f"), I(4))>>))>>
    \* an import expression that is skipped at run time, followed by one of the same module in the same scope
    [] site = 9 -> <<If(F, <<Def("x", Import("m1"))>>, <<>>), Def("m", Import("m1")), AsgS(Id("m"), "c", I(3)), Ret(Arr(<<Sel(Import("m1"), "c"), Sel(Id("m"), "n")>>))>>
    [] site = 10 -> <<Def("a", Bin("&&", F, Import("m1"))), Def("b", Import("m1")), Def("f", Fn0(<<Def("z", Cond(F, Import("m2"), I(0))), Ret(Sel(Import("m2"), "n"))>>)),
                      Ret(Arr(<<Id("a"), Sel(Id("b"), "n"), C0(Id("f"))>>))>>
    [] site = 11 -> <<ForIn("_", "v", Arr(<<>>), <<Def("x", Import("m1"))>>), Try(<<Thr(S("t")), ExprS(Import("m2"))>>, TRUE, "e", <<>>, FALSE, <<>>),
                      Ret(Arr(<<Sel(Import("m1"), "n"), Sel(Import("m2"), "n")>>))>>
    [] site = 8 -> <<Global(<<"cbcall", "cbcall2">>), Def("f", Fn0(<<Ret(Import("m2"))>>)), Def("x", Call(Id("cbcall2"), <<Id("f")>>)), AsgS(Id("x"), "c", I(8)),
                     Def("g", Fn0(<<Ret(Sel(Import("m2"), "c"))>>)), Ret(Arr(<<Call(Id("cbcall"), <<Id("g")>>), Sel(Import("m2"), "c"), Sel(Import("m1"), "n")>>))>>
    \* the builtin module: nested and top-level values changed in place, through a variable and through import expressions
    [] site = 12 -> <<Def("m", Import("bm")), Def("old", Sel(Sel(Id("m"), "lim"), "max")), AsgS(Sel(Id("m"), "lim"), "max", Bin("+", Id("old"), I(1))),
                      Ret(Arr(<<Id("old"), Sel(Sel(Import("bm"), "lim"), "max"), Sel(Id("m"), "x"), Sel(Import("m1"), "n")>>))>>
    [] site = 13 -> <<Def("m", Import("bm")), AsgS(Id("m"), "x", Bin("+", Sel(Id("m"), "x"), I(5))), Ret(Arr(<<Sel(Import("bm"), "x"), Sel(Sel(Id("m"), "lim"), "max")>>))>>
    \* state kept in a variable of the module body, written through one import and read through the others
    [] site = 15 -> <<Def("a", Import("m1")), Def("b", Import("m1")), ExprS(Call(Sel(Id("a"), "put"), <<I(5)>>)),
                      Ret(Arr(<<C0(Sel(Id("b"), "get")), C0(Sel(Id("a"), "get")), C0(Sel(Import("m1"), "get")), Call(Sel(Import("m1"), "put"), <<I(6)>>), C0(Sel(Id("a"), "get"))>>))>>
    [] site = 14 -> <<Def("f", Fn0(<<Def("m", Import("bm")), AsgS(Sel(Id("m"), "lim"), "max", Bin("+", Sel(Sel(Id("m"), "lim"), "max"), I(1))), Ret(Sel(Sel(Id("m"), "lim"), "max"))>>)),
                      Ret(Arr(<<C0(Id("f")), C0(Id("f")), Sel(Sel(Import("bm"), "lim"), "max")>>))>>
ModIdx == [f : {"mod"}, g : 1..12, site : 1..15]
HostGlobals == [x \in {"cbcall", "cbcall2"} |-> VBi(x)]
ModProg(c) == [P0(ModMain(c.site)) EXCEPT !.mods = ModsOf(c.g), !.globals = IF c.site \in {7, 8} THEN HostGlobals ELSE <<>>]
\* static verdict: does the compiler have to refuse (cycle / unknown module reachable from an import expression of the main script)
RECURSIVE Reach(_,_,_)
Reach(g, todo, seen) == IF todo = {} THEN seen
                        ELSE LET x == CHOOSE y \in todo : TRUE
                                 d == IF x \in {"m1", "m2", "m3"} THEN SeqSet(GraphDeps(g)[CASE x = "m1" -> 1 [] x = "m2" -> 2 [] x = "m3" -> 3]) ELSE {}
                             IN Reach(g, (todo \cup d) \ (seen \cup {x}), seen \cup {x})
MainImports(site) == CASE site \in {1, 2, 7, 9, 15} -> {"m1"} [] site \in {8, 10, 11} -> {"m1", "m2"} [] site = 3 -> {"m1", "m2"} [] site = 4 -> {"m2"} [] site = 5 -> {"m1", "m2", "m3"} [] site = 6 -> {"m1", "m2"}
                       [] site = 12 -> {"m1"} [] site \in {13, 14} -> {}
ModRefused(c) == LET r == Reach(c.g, MainImports(c.site), {}) IN
                 \/ "nope" \in r
                 \/ (c.g \in {5, 10} /\ {"m1", "m2"} \cap r # {}) \/ (c.g = 6 /\ "m1" \in r) \/ (c.g \in {9, 11} /\ {"m1", "m2", "m3"} \cap r # {})

(* ------------------------------------------- C10: fragment sessions *)
\* top-level statement sequences; a session cuts them into consecutive fragments
ParamSeq == <<ParamV(<<"p", "rest">>), Def("x", Id("rest")), Var("y"), ExprS(Arr(<<Id("p"), Id("rest"), Id("x"), Id("y")>>)), ExprS(C1(Id("len"), Id("rest")))>>
FragArgs(body) == IF body = ParamSeq THEN <<VInt(1), VInt(2), VInt(3)>> ELSE <<>>
FragSeqs == <<
  \* closure created, later assignment to the captured variable, calls in later fragments
  <<Def("x", I(1)), Def("f", Fn0(<<Inc("x"), Ret(Id("x"))>>)), Asg("x", I(10)), ExprS(C0(Id("f"))), ExprS(Arr(<<Id("x"), C0(Id("f"))>>))>>,
  \* block that re-uses local slots, then declarations after it
  <<Def("x", I(1)), If(T, <<Def("a", I(5)), Def("b", I(6)), Log(Bin("+", Id("a"), Id("b")))>>, <<>>), Def("y", I(2)),
    If(T, <<Def("c", I(7)), Asg("x", Id("c"))>>, <<>>), ExprS(Arr(<<Id("x"), Id("y")>>))>>,
  \* const / iota group, later use; variadic function
  <<ConstG(<<"c0", "c1", "c2">>, Id("iota")), Def("y", Bin("+", Id("c2"), I(40))), Def("g", Fn(<<"a", "b">>, TRUE, <<Ret(Arr(<<Id("a"), Id("b"), Id("y")>>))>>)),
    ExprS(Call(Id("g"), <<I(1), I(2), I(3)>>)), ExprS(Id("c1"))>>,
  \* imports and state of the module object across fragments
  <<Def("m", Import("m1")), AsgS(Id("m"), "c", I(3)), Def("n", Import("m1")), ExprS(Sel(Id("n"), "c")), ExprS(Sel(Import("m1"), "n"))>>,
  \* a module imported and changed, then another module imported for the first time, then the first one again
  <<Def("m", Import("m1")), AsgS(Id("m"), "c", I(5)), Def("n", Import("m2")), ExprS(Sel(Import("m1"), "c")), ExprS(Arr(<<Sel(Id("n"), "n"), Sel(Id("m"), "c"), Sel(Import("m3"), "n")>>))>>,
  \* try statements and the variables they declare
  <<Def("r", Arr(<<>>)), Try(<<Thr(S("e"))>>, TRUE, "er", <<Asg("r", Bin("+", Id("r"), S("c")))>>, TRUE, <<Asg("r", Bin("+", Id("r"), S("f")))>>),
    Try(<<Asg("r", Bin("+", Id("r"), S("t")))>>, FALSE, "", <<>>, TRUE, <<Asg("r", Bin("+", Id("r"), S("g")))>>), ExprS(Id("r")), ExprS(C1(Id("len"), Id("r")))>>,
  \* a failing fragment in the middle: later fragments are not compared
  <<Def("x", I(1)), ExprS(Bin("+", Id("x"), I(1))), ExprS(Idx(Arr(<<>>), I(1))), Asg("x", I(5)), ExprS(Id("x"))>>,
  \* globals and a function declared in one fragment, redefined variable captured by two closures
  <<Global(<<"gv">>), Def("k", I(0)), Def("inc", Fn0(<<Cmp("k", "+", I(1)), Asg("gv", Id("k")), Ret(Id("k"))>>)), ExprS(C0(Id("inc"))),
    ExprS(Arr(<<C0(Id("inc")), Id("k"), Id("gv")>>))>>,
  \* var without value, nested function using a later-assigned variable, for loop with closure
  <<Var("h"), Def("fs", Arr(<<>>)), For(<<Def("i", I(0))>>, Bin("<", Id("i"), I(2)), <<Inc("i")>>, <<Def("t", Id("i")), Push1(Fn0(<<Ret(Id("t"))>>))>>),
    Asg("h", Idx(Id("fs"), I(1))), ExprS(Arr(<<C0(Id("h")), C0(Idx(Id("fs"), I(0)))>>))>>,
  \* a builtin's name taken by a top-level function, called with constant arguments in later fragments (what the optimizer would fold)
  <<Def("n", I(0)), Def("len", Fn(<<"v">>, FALSE, <<Inc("n"), Ret(I(42))>>)), ExprS(C1(Id("len"), S("abc"))), ExprS(Arr(<<C1(Id("len"), S("")), Id("n")>>)), ExprS(Id("n"))>>,
  <<Def("string", Fn(<<"v">>, FALSE, <<Ret(Arr(<<Id("v")>>))>>)), ExprS(C1(Id("string"), I(5))), Def("int", I(7)), ExprS(Bin("+", Id("int"), I(1))), ExprS(C1(Id("string"), Id("int")))>>,
  \* the same through var / const declarations and a later re-assignment
  \* two function literals with the same text are two functions: equality, use as distinct values
  <<Def("f", Fn(<<"v">>, FALSE, <<Ret(Bin("+", Id("v"), I(1)))>>)), Def("g", Fn(<<"v">>, FALSE, <<Ret(Bin("+", Id("v"), I(1)))>>)), ExprS(Bin("==", Id("f"), Id("g"))),
    \* (function values have no identity in the reference semantics - two functions are never equal -, so a function is not compared with itself here)
    ExprS(Arr(<<Bin("!=", Id("f"), Id("g")), C1(Id("f"), I(1)), C1(Id("g"), I(2))>>)), ExprS(Bin("==", Id("g"), Id("f")))>>,
  \* a literal constant of an earlier fragment, its name taken by a parameter / block variable / loop variable in later ones
  <<Const("a", I(1)), Def("f", Fn(<<"a">>, FALSE, <<Ret(Bin("+", Id("a"), I(0)))>>)), ExprS(C1(Id("f"), I(5))),
    If(T, <<Def("a", I(7)), Log(Bin("+", Id("a"), I(1)))>>, <<>>), ExprS(Arr(<<Id("a"), C1(Id("f"), I(9))>>))>>,
  <<ConstG(<<"p", "q">>, Id("iota")), Def("r", Arr(<<>>)), ForIn("p", "q", Arr(<<I(5), I(6)>>), <<Asg("r", Call(Id("append"), <<Id("r"), Bin("+", Id("p"), Id("q"))>>))>>),
    Try(<<Thr(S("t"))>>, TRUE, "q", <<Asg("r", Call(Id("append"), <<Id("r"), Bin("==", Id("q"), I(1))>>))>>, FALSE, <<>>), ExprS(Arr(<<Id("r"), Id("p"), Id("q")>>))>>,
  \* negative zero and zero are two constants although they are equal (no reference outcome: session against single script)
  <<Def("a", Raw("-0.0", TRUE)), ExprS(C1(Id("string"), Id("a"))), Def("b", Raw("0.0", TRUE)), ExprS(C1(Id("string"), Id("b"))),
    ExprS(Arr(<<C1(Id("string"), Id("a")), C1(Id("string"), Id("b")), C1(Id("string"), Raw("0.0", TRUE))>>))>>,
  <<Def("z", Raw("0.0", TRUE)), Def("f", Fn0(<<Ret(C1(Id("string"), Bin("*", Id("z"), Raw("-1.0", FALSE))))>>)), ExprS(C1(Id("string"), Raw("-0.0", TRUE))),
    ExprS(C1(Id("string"), Raw("0.0", TRUE))), ExprS(Arr(<<C0(Id("f")), C1(Id("string"), Id("z"))>>))>>,
  \* a fragment ending in an if statement (without and with else) or a loop whose last inner statement is an expression:
  \* only a final expression statement gives a fragment its value, on every path through the other statements it is undefined
  <<Def("x", I(0)), If(Id("x"), <<ExprS(I(1))>>, <<>>), Def("y", I(5)), If(Id("y"), <<ExprS(I(2))>>, <<ExprS(I(3))>>), ExprS(Bin("+", Id("x"), Id("y")))>>,
  <<Global(<<"gv">>), If(Id("gv"), <<ExprS(I(1))>>, <<>>), Def("z", I(7)), For(<<Def("i", I(0))>>, Bin("<", Id("i"), I(2)), <<Inc("i")>>, <<ExprS(Id("i"))>>), If(Id("z"), <<ExprS(Id("z"))>>, <<>>)>>,
  \* a global written by one fragment and only read by later ones (also in a session made without a globals object)
  <<Global(<<"gv">>), Asg("gv", I(5)), ExprS(Id("gv")), Def("f", Fn0(<<Asg("gv", Bin("+", Id("gv"), I(1))), Ret(Id("gv"))>>)), ExprS(Arr(<<C0(Id("f")), Id("gv")>>))>>,
  \* a closure made by a fragment that stores into no variable of its own (it is kept in a global / in a map field),
  \* then an assignment to the variable it captured
  <<Global(<<"gv">>), Def("x", I(1)), Asg("gv", Fn0(<<Inc("x"), Ret(Id("x"))>>)), Asg("x", I(10)), ExprS(Arr(<<C0(Id("gv")), Id("x")>>))>>,
  <<Def("m", MapL(<<"k">>, <<I(0)>>)), Def("y", I(1)), AsgS(Id("m"), "get", Fn0(<<Ret(Id("y"))>>)), Asg("y", I(7)), ExprS(Arr(<<C0(Sel(Id("m"), "get")), Id("y")>>))>>,
  \* a session started with arguments whose first fragment declares a variadic parameter together with other variables
  ParamSeq,
  \* (a constant declaration emits no code: a fragment ending in one reports whatever value the statement before left, so it is not put last)
  <<Var("len"), Const("int", I(3)), Asg("len", Fn(<<"v">>, FALSE, <<Ret(S("mine"))>>)), ExprS(C1(Id("len"), S("ab"))), ExprS(Arr(<<Id("int"), C1(Id("len"), Arr(<<>>))>>))>>
>>
FragIdx == [f : {"frag"}, s : 1..Len(FragSeqs), cut : SUBSET (1..4)]
\* execute the statements one after another in one scope, recording for each the value a fragment
\* ending there returns (value of an expression statement, else undefined) or the error
RECURSIVE FragRun(_,_,_,_,_)
FragRun(b, i, env, st, acc) ==
  IF i > Len(b) THEN [res |-> acc, st |-> st]
  ELSE LET s == b[i] IN
       IF s.k = "expr"
       THEN LET r == Eval(s.e, env, st, 0) IN
            IF r.ok THEN FragRun(b, i + 1, env, r.st, Append(acc, [ok |-> TRUE, v |-> San(r.v, r.st), nlog |-> Len(r.st.log)]))
            ELSE [res |-> Append(acc, [ok |-> FALSE, v |-> San(r.v, r.st), nlog |-> Len(r.st.log)]), st |-> r.st]
       ELSE LET r == ExecS(s, env, st, 0) IN
            IF r.o = Norm THEN FragRun(b, i + 1, r.env, r.st, Append(acc, [ok |-> TRUE, v |-> VUndef, nlog |-> Len(r.st.log)]))
            ELSE [res |-> Append(acc, [ok |-> FALSE, v |-> San(r.o[2], r.st), nlog |-> Len(r.st.log)]), st |-> r.st]
FragExp(c) == LET p == [P0(FragSeqs[c.s]) EXCEPT !.mods = ModsOf(1), !.args = FragArgs(FragSeqs[c.s])]
                  st0 == [St0 EXCEPT !.msrc = p.mods, !.args = p.args]
                  r == FragRun(p.body, 1, Push(<<>>), st0, <<>>)
              IN [steps |-> r.res, log |-> [i \in 1..Len(r.st.log) |-> San(r.st.log[i], r.st)]]

(* ------------------------------------------- episodes: feature histories *)
\* A program is a sequence of episodes, each exercising one feature and logging what it
\* observed; episode i uses names suffixed with i and may be wrapped in a function call
\* (one frame deeper).  Defects that need a multi-step history inside one run (state
\* left behind in frames, handlers, stack slots) show up as a wrong log entry of a later episode.
Nm(b, i) == b \o ToString(i)
Episode(k, i) ==
  LET r == Nm("r", i)  g == Nm("g", i)  h == Nm("h", i)  a == Nm("a", i)  b == Nm("b", i)  x == Nm("x", i) IN
  CASE k = 1 ->  \* recursion in statement position: result is undefined
         <<Var(r), Asg(r, Fn(<<"n">>, FALSE, <<If(Bin("==", Id("n"), I(0)), <<Ret(I(5))>>, <<>>), ExprS(C1(Id(r), Bin("-", Id("n"), I(1))))>>)), Log(C1(Id(r), I(2)))>>
    [] k = 2 ->  \* error thrown two frames down, caught here
         <<Def(g, Fn0(<<Thr(S("x"))>>)), Def(h, Fn0(<<ExprS(C0(Id(g))), Ret(I(1))>>)),
           Try(<<Log(C0(Id(h)))>>, TRUE, "e", <<Log(S("caught"))>>, FALSE, <<>>)>>
    [] k = 3 ->  \* plain nested calls returning a value
         <<Def(a, Fn0(<<Ret(I(42))>>)), Def(b, Fn0(<<Ret(C0(Id(a)))>>)), Log(C0(Id(b)))>>
    [] k = 4 ->  \* return through finally inside a function
         <<Def(a, Fn0(<<Try(<<Ret(I(1))>>, FALSE, "", <<>>, TRUE, <<Log(S("fin"))>>)>>)), Log(C0(Id(a)))>>
    [] k = 5 ->  \* closure counter
         <<Def(a, C0(Fn0(<<Def("n", I(0)), Ret(Fn0(<<Inc("n"), Ret(Id("n"))>>))>>))), ExprS(C0(Id(a))), Log(C0(Id(a)))>>
    [] k = 6 ->  \* break out of a loop through finally
         <<For(<<Def(x, I(0))>>, Bin("<", Id(x), I(3)), <<Inc(x)>>, <<Try(<<If(Bin("==", Id(x), I(1)), <<Brk>>, <<>>)>>, FALSE, "", <<>>, TRUE, <<Log(Id(x))>>)>>), Log(S("after"))>>
    [] k = 7 ->  \* tail recursion
         <<Var(r), Asg(r, Fn(<<"n", "acc">>, FALSE, <<If(Bin("==", Id("n"), I(0)), <<Ret(Id("acc"))>>, <<>>), Ret(Call(Id(r), <<Bin("-", Id("n"), I(1)), Bin("+", Id("acc"), Id("n"))>>))>>)), Log(Call(Id(r), <<I(3), I(0)>>))>>
    [] k = 8 ->  \* variadic with spread
         <<Def(a, Fn(<<"p", "q">>, TRUE, <<Ret(Arr(<<Id("p"), Id("q")>>))>>)), Log(CallS(Id(a), <<I(1), Arr(<<I(2), I(3)>>)>>))>>
    [] k = 9 ->  \* runtime error in a nested function, caught at this level, then finally
         <<Def(a, Fn(<<"z">>, FALSE, <<Ret(Bin("/", I(1), Id("z")))>>)), Try(<<Log(C1(Id(a), I(0)))>>, TRUE, "e", <<Log(C1(Id("isError"), Id("e")))>>, TRUE, <<Log(S("f9"))>>)>>
    [] k = 10 -> \* statement-position recursion that throws at the bottom, caught outside
         <<Var(r), Asg(r, Fn(<<"n">>, FALSE, <<If(Bin("==", Id("n"), I(0)), <<Thr(S("deep"))>>, <<>>), ExprS(C1(Id(r), Bin("-", Id("n"), I(1))))>>)),
           Try(<<ExprS(C1(Id(r), I(2)))>>, TRUE, "e", <<Log(S("cq"))>>, FALSE, <<>>)>>
    [] k = 11 -> \* one call returning a value
         <<Def(a, Fn(<<"v">>, FALSE, <<Ret(Bin("+", Id("v"), I(1)))>>)), Log(C1(Id(a), I(10)))>>
    [] k = 12 -> \* closures created in a for-in loop
         <<Def(a, Arr(<<>>)), ForIn("_", "v", Arr(<<I(7), I(8)>>), <<Asg(a, Call(Id("append"), <<Id(a), Fn0(<<Ret(Id("v"))>>)>>))>>), Log(Arr(<<C0(Idx(Id(a), I(0))), C0(Idx(Id(a), I(1)))>>))>>
    [] k = 13 -> \* try statement completing normally, then a second one leaving by an error
         <<Try(<<Log(S("t1"))>>, FALSE, "", <<>>, TRUE, <<Log(S("f1"))>>), Try(<<Thr(S("y"))>>, TRUE, "e", <<Log(S("c2"))>>, TRUE, <<Log(S("f2"))>>)>>
    [] k = 14 -> \* wrong number of arguments caught
         <<Def(a, Fn(<<"p">>, FALSE, <<Ret(Id("p"))>>)), Try(<<Log(C0(Id(a)))>>, TRUE, "e", <<Log(S("nargs"))>>, FALSE, <<>>)>>
NEpi == 14
Wrapped(blk, i, w) == IF w = 0 THEN blk ELSE <<Def(Nm("w", i), Fn0(blk)), ExprS(C0(Id(Nm("w", i))))>>
EpiProg(c) == LET RECURSIVE go(_)
                  go(i) == IF i > Len(c.ks) THEN <<>> ELSE Wrapped(Episode(c.ks[i], i), i, c.ws[i]) \o go(i + 1)
              IN go(1) \o <<Ret(I(0))>>
EpiIdx == {[f |-> "epi", ks |-> <<k1, k2>>, ws |-> <<w1, w2>>] : k1 \in 1..NEpi, k2 \in 1..NEpi, w1 \in 0..1, w2 \in 0..1}
          \cup (IF "epi3" \in Fams
                THEN {[f |-> "epi", ks |-> <<k1, k2, k3>>, ws |-> <<w, w, 0>>] : k1 \in 1..NEpi, k2 \in 1..NEpi, k3 \in 1..NEpi, w \in 0..1}
                ELSE {[f |-> "epi", ks |-> <<k1, k2, k3>>, ws |-> <<0, 1, 0>>] : k1 \in {1, 2, 9, 10, 13}, k2 \in 1..NEpi, k3 \in {3, 4, 7, 11}})

(* ------------------------------------ C14: calling a script function from Go *)
\* f is called three times, each time either inside the script or by the host through a pooled
\* (cbcall) or an unpooled (cbcall2) Invoker; the reference semantics treats all three alike, so the
\* expected observation is that of the in-script calls
InvFns == <<
  \* counter closure over a captured variable and a global
  [pre |-> <<Global(<<"gv">>), Def("n", I(0)), Def("f", Fn(<<"d">>, FALSE, <<Cmp("n", "+", Id("d")), Asg("gv", Id("n")), Ret(Id("n"))>>))>>, args |-> << <<I(1)>>, <<I(2)>>, <<I(3)>> >>],
  \* variadic packing
  [pre |-> <<Def("f", Fn(<<"a", "b">>, TRUE, <<Ret(Arr(<<Id("a"), Id("b")>>))>>))>>, args |-> << <<I(1)>>, <<I(1), I(2)>>, <<I(1), I(2), I(3)>> >>],
  \* recursion (not in tail position) and tail recursion
  [pre |-> <<Var("f"), Asg("f", Fn(<<"k">>, FALSE, <<If(Bin("==", Id("k"), I(0)), <<Ret(I(0))>>, <<>>), Ret(Bin("+", Id("k"), C1(Id("f"), Bin("-", Id("k"), I(1)))))>>))>>, args |-> << <<I(0)>>, <<I(2)>>, <<I(3)>> >>],
  \* throwing for some arguments
  [pre |-> <<Def("f", Fn(<<"k">>, FALSE, <<If(Bin("==", Id("k"), I(2)), <<Thr(S("two"))>>, <<>>), Ret(Bin("*", Id("k"), I(10)))>>))>>, args |-> << <<I(1)>>, <<I(2)>>, <<I(3)>> >>],
  \* importing a module and changing its state
  [pre |-> <<Def("f", Fn(<<"k">>, FALSE, <<Def("m", Import("m1")), AsgS(Id("m"), "c", Bin("+", Sel(Id("m"), "c"), Id("k"))), Ret(Sel(Id("m"), "c"))>>))>>, args |-> << <<I(1)>>, <<I(2)>>, <<I(3)>> >>],
  \* try / finally inside, logging
  [pre |-> <<Def("f", Fn(<<"k">>, FALSE, <<Try(<<If(Bin("==", Id("k"), I(1)), <<Ret(S("early"))>>, <<>>), Log(Id("k"))>>, FALSE, "", <<>>, TRUE, <<Log(S("fin"))>>), Ret(Id("k"))>>))>>, args |-> << <<I(1)>>, <<I(2)>>, <<I(3)>> >>],
  \* a function that itself calls the host to call another function (nested invokers)
  [pre |-> <<Def("g", Fn(<<"k">>, FALSE, <<Ret(Bin("+", Id("k"), I(100)))>>)), Def("f", Fn(<<"k">>, FALSE, <<Ret(Call(Id("cbcall"), <<Id("g"), Id("k")>>))>>))>>, args |-> << <<I(1)>>, <<I(2)>>, <<I(3)>> >>],
  \* a variadic function that keeps its rest array: the array belongs to the call, not to the caller's argument buffer
  [pre |-> <<Def("saved", Arr(<<>>)), Def("f", Fn(<<"a", "xs">>, TRUE, <<Asg("saved", Call(Id("append"), <<Id("saved"), Id("xs")>>)), Ret(Id("saved"))>>))>>,
   args |-> << <<I(1), I(2)>>, <<I(3), I(4), I(5)>>, <<I(6)>> >>],
  \* a variadic function that writes into its rest array
  [pre |-> <<Def("f", Fn(<<"xs">>, TRUE, <<AsgI(Id("xs"), I(0), Bin("+", Idx(Id("xs"), I(0)), I(100))), Ret(Id("xs"))>>))>>,
   args |-> << <<I(1), I(2)>>, <<I(3)>>, <<I(4), I(5), I(6)>> >>]
>>
\* each call is wrapped in try/catch so that a thrown error is observed and the history continues
InvCall(how, as, i) ==
  LET call == CASE how = "in" -> Call(Id("f"), as) [] how = "cb" -> Call(Id("cbcall"), <<Id("f")>> \o as) [] how = "cb2" -> Call(Id("cbcall2"), <<Id("f")>> \o as)
  IN Try(<<Log(call)>>, TRUE, "e", <<Log(Id("e"))>>, FALSE, <<>>)
InvProg(c) == LET fd == InvFns[c.fn] IN
  [P0(<<Global(<<"cbcall", "cbcall2">>)>> \o fd.pre \o [i \in 1..3 |-> InvCall(c.how[i], fd.args[i], i)] \o <<Ret(I(0))>>)
    EXCEPT !.mods = ModsOf(1), !.globals = HostGlobals]
InvIdx == [f : {"inv"}, fn : 1..Len(InvFns), how : [1..3 -> {"in", "cb", "cb2"}]]
          \cup [f : {"invseq"}, fn : 1..Len(InvFns) + 3, how : {"cbseq", "cbseq2", "cbseq3"}, perm : 1..3]
\* one Invoker used for a history of calls (child VM re-used without release in between)
SeqFns == InvFns \o <<
  \* recursion in statement position that ends in an uncaught throw, then ordinary calls
  [pre |-> <<Var("f"), Asg("f", Fn(<<"k">>, FALSE, <<If(Bin("==", Id("k"), I(9)), <<Ret(I(42))>>, <<>>), If(Bin("==", Id("k"), I(0)), <<Thr(S("bottom"))>>, <<>>),
                                                     ExprS(C1(Id("f"), Bin("-", Id("k"), I(1))))>>))>>, args |-> << <<I(9)>>, <<I(2)>>, <<I(9)>> >>],
  \* error inside try/finally of the invoked function escaping to the host, then a normal call
  [pre |-> <<Def("f", Fn(<<"k">>, FALSE, <<Try(<<If(Bin("==", Id("k"), I(1)), <<Thr(S("one"))>>, <<>>)>>, FALSE, "", <<>>, TRUE, <<Log(S("fin"))>>), Ret(Bin("+", Id("k"), I(1)))>>))>>,
   args |-> << <<I(1)>>, <<I(5)>>, <<I(1)>> >>],
  \* a variadic function returning a closure over its catch variable: the closures of successive calls on one child VM are
  \* independent (each activation has variables of its own); the closures are called after all invocations
  [pre |-> <<Def("f", Fn(<<"a", "xs">>, TRUE, <<Def("t", Id("a")), Try(<<Thr(Id("a"))>>, TRUE, "e", <<Asg("e", Arr(<<Id("a"), Id("xs")>>)),
                                                       Ret(Fn0(<<Inc("t"), Ret(Arr(<<Id("e"), Id("t")>>))>>))>>, FALSE, <<>>)>>))>>,
   \* (more arguments than the function has variables: every local slot lies below the argument count)
   args |-> << <<I(1), I(2), I(3), I(4), I(5), I(6)>>, <<I(4), I(5), I(6), I(7), I(8), I(9)>>, <<I(7), I(8), I(9), I(1), I(2), I(3)>> >>, post |-> TRUE]
>>
Perm(as, p) == CASE p = 1 -> as [] p = 2 -> <<as[2], as[3], as[1]>> [] p = 3 -> <<as[3], as[1], as[2]>>
InvSeqProg(c) == LET fd == SeqFns[c.fn]  as == Perm(fd.args, c.perm) IN
  [P0(<<Global(<<"cbcall", "cbcall2", "cbseq", "cbseq2", "cbseq3">>)>> \o fd.pre
      \o (IF "post" \in DOMAIN fd
          THEN <<Def("rr", Call(Id(c.how), <<Id("f"), Arr([i \in 1..3 |-> Arr(as[i])])>>)),
                 Ret(Arr(<<C0(Idx(Id("rr"), I(0))), C0(Idx(Id("rr"), I(1))), C0(Idx(Id("rr"), I(2))), C0(Idx(Id("rr"), I(0)))>>))>>
          ELSE <<Ret(Call(Id(c.how), <<Id("f"), Arr([i \in 1..3 |-> Arr(as[i])])>>))>>))
    EXCEPT !.mods = ModsOf(1), !.globals = [x \in {"cbcall", "cbcall2", "cbseq", "cbseq2", "cbseq3"} |-> VBi(x)]]

(* ---------------------------------------------------------- the states *)
\* the catch identifier is a variable of its own, fresh for every execution of the catch clause
CatchVar == <<
  \* a dead block variable captured by a closure, then a catch identifier (which may get the block variable's slot)
  <<Var("f"), If(T, <<Def("a", I(1)), Asg("f", Fn0(<<Ret(Id("a"))>>))>>, <<>>), Try(<<Thr(S("x"))>>, TRUE, "e", <<>>, FALSE, <<>>), Ret(C0(Id("f")))>>,
  \* the catch identifier captured by a closure in every iteration of a loop
  <<Def("fs", Arr(<<>>)), For(<<Def("i", I(0))>>, Bin("<", Id("i"), I(2)), <<Inc("i")>>,
                               <<Try(<<Thr(S("x"))>>, TRUE, "e", <<Asg("e", Id("i")), Push1(Fn0(<<Ret(Id("e"))>>))>>, FALSE, <<>>)>>),
    Ret(Arr(<<C0(Idx(Id("fs"), I(0))), C0(Idx(Id("fs"), I(1)))>>))>>,
  \* the same inside a function called twice (a new activation each time: no sharing possible)
  <<Def("fs", Arr(<<>>)), Def("g", Fn(<<"i">>, FALSE, <<Try(<<Thr(S("x"))>>, TRUE, "e", <<Asg("e", Id("i")), Push1(Fn0(<<Ret(Id("e"))>>))>>, FALSE, <<>>)>>)),
    ExprS(C1(Id("g"), I(0))), ExprS(C1(Id("g"), I(1))), Ret(Arr(<<C0(Idx(Id("fs"), I(0))), C0(Idx(Id("fs"), I(1)))>>))>>,
  \* no error thrown: the identifier is undefined in the finally block
  <<Def("r", I(0)), Try(<<Asg("r", I(1))>>, TRUE, "e", <<Asg("r", I(2))>>, TRUE, <<Asg("r", Arr(<<Id("r"), Id("e")>>))>>), Ret(Id("r"))>>
>>
FamSeq(f) == CASE f = "closure" -> Closure [] f = "assign" -> Assign [] f = "const" -> ConstProgs [] f = "catchvar" -> CatchVar
ListIdx == UNION { {[f |-> x, i |-> i] : i \in 1..Len(FamSeq(x))} : x \in Fams \cap {"closure", "assign", "const", "catchvar"} }
AllIdx == ListIdx
          \cup (IF "call" \in Fams THEN CallIdx ELSE {})
          \cup (IF "rec" \in Fams THEN RecIdx ELSE {})
          \cup (IF "destr" \in Fams THEN DestrIdx ELSE {})
          \cup (IF "loop" \in Fams THEN LoopIdx ELSE {})
          \cup (IF "shadow" \in Fams THEN ShadowIdx ELSE {})
          \cup (IF "fold" \in Fams THEN FoldIdx ELSE {})
          \cup (IF "cond" \in Fams THEN CondIdx ELSE {})
          \cup (IF "xfold" \in Fams THEN XIdxSet ELSE {})
          \cup (IF "scope" \in Fams THEN ScIdx ELSE {})
          \cup (IF "dis" \in Fams THEN DisIdx \cup DisModIdx ELSE {})
          \cup (IF "mod" \in Fams THEN ModIdx ELSE {})
          \cup (IF "frag" \in Fams THEN FragIdx ELSE {})
          \cup (IF "epi" \in Fams THEN EpiIdx ELSE {})
          \cup (IF "inv" \in Fams THEN InvIdx ELSE {})
ProgOf(c) == CASE c.f \in {"closure", "assign", "const", "catchvar"} -> P0(FamSeq(c.f)[c.i])
               [] c.f = "call" -> P0(CallProg(c))
               [] c.f = "rec" -> P0(RecProg(c))
               [] c.f = "destr" -> P0(DestrProg(c))
               [] c.f = "loop" -> P0(LoopProg(c))
               [] c.f = "shadow" -> P0(ShadowProg(c.nm, c.i))
               [] c.f = "fold" -> P0(FoldProg(c))
               [] c.f = "cond" -> P0(CondProg(c))
               [] c.f = "xfold" -> P0(XProg(c))
               [] c.f = "scope" -> P0(ScProg(c))
               [] c.f = "dis" -> [P0(ShadowProg(c.nm, c.i)) EXCEPT !.disabled = c.d]
               [] c.f = "dismod" -> [DisModProg(c) EXCEPT !.disabled = c.d]
               [] c.f = "mod" -> ModProg(c)
               [] c.f = "frag" -> [P0(FragSeqs[c.s]) EXCEPT !.mods = ModsOf(1), !.args = FragArgs(FragSeqs[c.s])]
               [] c.f = "epi" -> P0(EpiProg(c))
               [] c.f = "inv" -> InvProg(c)
               [] c.f = "invseq" -> InvSeqProg(c)

VARIABLES c, ph
vars == <<c, ph>>
Init == ph = 0 /\ c \in AllIdx
Judge == ph = 0 /\ ph' = 1 /\ UNCHANGED c
Next == Judge
Spec == Init /\ [][Next]_vars

\* the reference semantics is total on the families (no unmodelled construct, no divergence)
Modelled == (ph = 1 /\ c.f # "frag" /\ ~(c.f = "mod" /\ ModRefused(c)) /\ ~(c.f = "scope" /\ ~ScValid(c))) => LET r == RunP(ProgOf(c)) IN
              (ProgRefs(ProgOf(c)) \cap ProgOf(c).disabled = {}) =>
              ~(r.o[1] = "thr" /\ r.o[2].name \in {"unmodelled-builtin-call", "diverge", "unresolved"})
\* a script that never mentions a disabled builtin as a builtin behaves as without the disabled set
\* C14 on the model: the observation does not depend on how the calls are made
InvSame == (ph = 1 /\ c.f = "inv") => RunP(InvProg(c)).log = RunP(InvProg([c EXCEPT !.how = [i \in 1..3 |-> "in"]])).log
\* a module body runs at most once per run: "load:m" occurs at most once in the log
LoadOnce == (ph = 1 /\ c.f = "mod" /\ ~ModRefused(c)) =>
   LET l == RunP(ProgOf(c)).log IN \A m \in {"m1", "m2", "m3"} : Cardinality({i \in 1..Len(l) : l[i].t = "str" /\ l[i].v = "load:" \o m}) <= 1
DisabledIrrelevant == (ph = 1 /\ c.f \notin {"mod", "frag"}) => LET p == ProgOf(c) IN
   (ProgRefs(p) \cap p.disabled = {}) => RunP(p) = RunP([p EXCEPT !.disabled = {}])
\* the reference semantics determines the observation (operand combinations outside its
\* fragment are still replayed and compared across compiler configurations)
RefKnown(p) == LET r == RunP(p) IN ~(r.o[1] = "thr" /\ r.o[2].name = "unmodelled-op")
IsRawE(e) == e.k = "lit" /\ e.v.t = "raw"
FoldExprKnown(cc) == ~IsRawE(FoldVals[cc.a]) /\ ~IsRawE(FoldVals[cc.b]) /\ RefKnown(P0(<<Ret(Bin(FoldOps[cc.op], FoldVals[cc.a], FoldVals[cc.b]))>>))
NoExp == [o |-> <<"ret", VUndef>>, log |-> <<>>, globals |-> <<>>]
ExportFrag == (ph = 1 /\ c.f = "frag") =>
   CSVWrite("%1$s", <<ToJson([fam |-> c.f, id |-> [f |-> c.f, s |-> c.s, cut |-> c.cut], prog |-> ProgOf(c), frag |-> FragExp(c)])>>, IOEnv.OUT)
Export == (ph = 1 /\ c.f # "frag" /\ (c.f = "scope" => ScValid(c))) => LET p == ProgOf(c)  mref == (c.f = "mod" /\ ModRefused(c)) IN
   CSVWrite("%1$s", <<ToJson([fam |-> c.f, id |-> c, prog |-> p, exp |-> (IF mref THEN NoExp ELSE RunP(p)), modrefused |-> mref,
                              mayrefuse |-> (c.f = "xfold" \/ (c.f = "fold" /\ FoldRaises(c))),
                              refknown |-> (IF c.f = "xfold" THEN FALSE ELSE IF c.f = "fold" THEN (FoldExprKnown(c) /\ c.pos \notin {"kidx", "kfn"}) ELSE IF mref THEN TRUE ELSE RefKnown(p)),
                              refused |-> (ProgRefs(p) \cap p.disabled # {}),
                              \* a reference inside a branch the compiler removes (literal false condition) need not be reported
                              refopt |-> (c.f = "dismod" /\ c.v = 7)])>>, IOEnv.OUT)
=============================================================================
