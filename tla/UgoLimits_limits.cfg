CONSTANTS
  Part = "limits"
  MaxLen = 0
SPECIFICATION Spec
INVARIANTS Monotone Export
