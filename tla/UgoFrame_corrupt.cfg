CONSTANTS
  MaxLen = 0
  Mode = "corrupt"
SPECIFICATION Spec
INVARIANTS Export
