SPECIFICATION Spec
INVARIANT Export
