CONSTANTS
  NVM = 3
  CopyOnStore = TRUE
SPECIFICATION Spec
INVARIANTS Isolation ModulePrivacy
