------------------------------- MODULE UgoSem -------------------------------
(* Reference semantics of uGO at source level, written from docs/tutorial.md,
   docs/error-handling.md, docs/operators.md and the property statements - not
   from the compiler.  A definitional big-step interpreter:

     Eval(e, env, st, d)      -> [ok, v, st]
     ExecSeq(b, i, env, st, d) -> [o, env, st]     o = <<"norm">> | <<"ret", v>> | <<"brk">> | <<"cnt">> | <<"thr", err>>

   Variables live in store cells (st.store) so closures capture by reference
   and every executed declaration allocates a fresh cell; maps live on a heap
   (st.heap) because they are shared by reference; arrays are values (the
   families never alias an array they mutate).  env is a chain of scopes
   (name -> store address) threaded in execution order; a closure captures the
   chain at creation.  Builtins are the fall-back of name resolution unless the
   name is in st.disabled.  Modules: the body of a source module runs at most
   once per run, import yields the cached value.

   Used by the program families of UgoSemFam (C01, C02, C10, C12, C13). *)
EXTENDS Integers, Sequences, FiniteSets, TLC

(* ---------------- values ---------------- *)
VInt(n)   == [t |-> "int", v |-> n]
VStr(s)   == [t |-> "str", v |-> s]
VBool(b)  == [t |-> "bool", v |-> b]
VUndef    == [t |-> "undef"]
VArr(s)   == [t |-> "arr", v |-> s]
VFn(n, e) == [t |-> "fn", fn |-> n, env |-> e]
VBi(n)    == [t |-> "bi", n |-> n]
VErr(n,m) == [t |-> "err", name |-> n, msg |-> m]
VMap(h)   == [t |-> "map", h |-> h]           \* reference to st.heap[h]

Builtins == {"int", "string", "len", "append", "error", "typeName", "bool", "isError", "copy"}
StrToInt == [s \in {"7", "8"} |-> IF s = "7" THEN 7 ELSE 8]

Falsy(v) == CASE v.t = "raw" -> v.falsy [] v.t = "bool" -> ~v.v [] v.t = "int" -> v.v = 0 [] v.t = "str" -> v.v = ""
              [] v.t = "undef" -> TRUE [] v.t = "arr" -> v.v = <<>> [] v.t = "err" -> TRUE
              [] OTHER -> FALSE

(* ---------------- AST constructors ---------------- *)
Lit(v)        == [k |-> "lit", v |-> v]
Id(n)         == [k |-> "id", n |-> n]
Bin(op, l, r) == [k |-> "bin", op |-> op, l |-> l, r |-> r]
Un(op, e)     == [k |-> "un", op |-> op, e |-> e]
Cond(c, a, b) == [k |-> "cond", c |-> c, a |-> a, b |-> b]
Call(f, as)   == [k |-> "call", f |-> f, as |-> as, sp |-> FALSE]
CallS(f, as)  == [k |-> "call", f |-> f, as |-> as, sp |-> TRUE]
Fn(ps, va, b) == [k |-> "fn", ps |-> ps, va |-> va, b |-> b]
Arr(es)       == [k |-> "arr", es |-> es]
MapL(ks, es)  == [k |-> "map", ks |-> ks, es |-> es]
Idx(e, i)     == [k |-> "idx", e |-> e, i |-> i]
Slice(e, lo, hi) == [k |-> "slice", e |-> e, lo |-> lo, hi |-> hi]   \* e[lo:hi], constant bounds, -1 = omitted
Sel(e, n)     == [k |-> "sel", e |-> e, n |-> n]
Import(n)     == [k |-> "import", n |-> n]

Def(n, e)     == [k |-> "def", n |-> n, e |-> e]          \* n := e
Var(n)        == [k |-> "var", n |-> n]                   \* var n
VarI(n, e)    == [k |-> "vari", n |-> n, e |-> e]         \* var n = e
Const(n, e)   == [k |-> "const", n |-> n, e |-> e]
ConstG(ns, e) == [k |-> "constg", ns |-> ns, e |-> e]     \* const ( n1 = e; n2; n3 ) with iota
Asg(n, e)     == [k |-> "asg", n |-> n, e |-> e]          \* n = e
AsgI(t, i, e) == [k |-> "asgi", t |-> t, i |-> i, e |-> e] \* t[i] = e   (t: expression)
CmpI(t, i, op, e) == [k |-> "cmpi", t |-> t, i |-> i, op |-> op, e |-> e] \* t[i] op= e
AsgS(t, n, e) == [k |-> "asgs", t |-> t, n |-> n, e |-> e] \* t.n = e
Cmp(n, op, e) == [k |-> "cmp", n |-> n, op |-> op, e |-> e] \* n op= e
Destr(ns, d, e) == [k |-> "destr", ns |-> ns, d |-> d, e |-> e] \* n1, n2 := e  (d: define) / n1, n2 = e
ExprS(e)      == [k |-> "expr", e |-> e]
Ret(e)        == [k |-> "ret", e |-> e]
Ret0          == [k |-> "ret0"]
If(c, t, f)   == [k |-> "if", c |-> c, t |-> t, f |-> f]
For(i, c, p, b) == [k |-> "for", i |-> i, c |-> c, p |-> p, b |-> b]
ForIn(kn, vn, e, b) == [k |-> "forin", kn |-> kn, vn |-> vn, e |-> e, b |-> b]
Try(b, hc, cn, c, hf, f) == [k |-> "try", b |-> b, hc |-> hc, cn |-> cn, c |-> c, hf |-> hf, f |-> f]
Thr(e)        == [k |-> "thr", e |-> e]
Log(e)        == [k |-> "log", e |-> e]
Brk           == [k |-> "brk"]
Cnt           == [k |-> "cnt"]
Param(ns)     == [k |-> "param", ns |-> ns]
ParamV(ns)    == [k |-> "paramv", ns |-> ns]        \* param (n1, ..., ...nk): the last one collects the remaining arguments
Global(ns)    == [k |-> "global", ns |-> ns]

(* ---------------- state, environment ---------------- *)
\* st = [store, heap, log, mods (module name -> cached value), msrc (name -> body), disabled, globals (name -> value), args]
St0 == [store |-> <<>>, heap |-> <<>>, log |-> <<>>, mods |-> <<>>, msrc |-> <<>>, disabled |-> {},
        globals |-> <<>>, args |-> <<>>]
Alloc(st, v) == [st EXCEPT !.store = Append(@, v)]
NewAddr(st) == Len(st.store) + 1
\* a binding is [k |-> "l", a |-> store address] or [k |-> "g", n |-> global name]; NoB when unbound
NoB == [k |-> "none"]
LocB(a) == [k |-> "l", a |-> a]
GloB(n) == [k |-> "g", n |-> n]
RECURSIVE Lookup(_,_)
Lookup(env, n) == IF env = <<>> THEN NoB
                  ELSE IF n \in DOMAIN env[Len(env)] THEN env[Len(env)][n]
                  ELSE Lookup(SubSeq(env, 1, Len(env) - 1), n)
Bind(env, n, a) == [env EXCEPT ![Len(env)] = [x \in (DOMAIN @) \cup {n} |-> IF x = n THEN a ELSE @[x]]]
Push(env) == Append(env, [x \in {} |-> NoB])
Declare(env, st, n, v) == <<Bind(env, n, LocB(NewAddr(st))), Alloc(st, v)>>
FunUpd(f, k, v) == [x \in (DOMAIN f) \cup {k} |-> IF x = k THEN v ELSE f[x]]

OkR(v, st)  == [ok |-> TRUE, v |-> v, st |-> st]
ErrR(e, st) == [ok |-> FALSE, v |-> e, st |-> st]
Norm == <<"norm">>

TypeName(v) == CASE v.t = "str" -> "string" [] v.t = "arr" -> "array" [] v.t = "undef" -> "undefined"
                 [] v.t = "fn" -> "compiledFunction" [] v.t = "bi" -> "builtinFunction" [] v.t = "err" -> "error"
                 [] OTHER -> v.t

\* structural equality of plain values (maps compare by content)
RECURSIVE VEq(_,_,_)
VEq(a, b, st) ==
  IF a.t # b.t THEN FALSE
  ELSE CASE a.t = "arr" -> Len(a.v) = Len(b.v) /\ \A i \in 1..Len(a.v) : VEq(a.v[i], b.v[i], st)
         [] a.t = "map" -> LET x == st.heap[a.h]  y == st.heap[b.h] IN
                           DOMAIN x = DOMAIN y /\ \A k \in DOMAIN x : VEq(x[k], y[k], st)
         [] a.t \in {"fn", "bi"} -> FALSE
         [] OTHER -> a = b

\* Go's truncated integer division
Abs(x) == IF x < 0 THEN 0 - x ELSE x
TDiv(x, y) == IF (x < 0) = (y < 0) THEN Abs(x) \div Abs(y) ELSE 0 - (Abs(x) \div Abs(y))

\* bool operands are untyped 1 / 0 next to an int (docs/operators.md)
NumLike(v) == v.t \in {"int", "bool"}
AsInt(v) == IF v.t = "bool" THEN VInt(IF v.v THEN 1 ELSE 0) ELSE v
RECURSIVE BinOp(_,_,_,_)
BinOp(op, a, b, st) ==
  \* raw literals (floats, uints, chars) and the operators the fragment does not model are outside the reference
  IF a.t = "raw" \/ b.t = "raw" \/ op \notin {"+", "-", "*", "/", "==", "!=", "<", ">"} THEN [ok |-> FALSE, v |-> VErr("unmodelled-op", op)] ELSE
  CASE NumLike(a) /\ NumLike(b) /\ "bool" \in {a.t, b.t} /\ (op \in {"+", "-", "*", "/", "<", ">"} \/ (op \in {"==", "!="} /\ a.t # b.t)) ->
         BinOp(op, AsInt(a), AsInt(b), st)
    [] op = "==" -> [ok |-> TRUE, v |-> VBool(VEq(a, b, st))]
    [] op = "!=" -> [ok |-> TRUE, v |-> VBool(~VEq(a, b, st))]
    [] op = "+" /\ a.t = "int" /\ b.t = "int" -> [ok |-> TRUE, v |-> VInt(a.v + b.v)]
    [] op = "-" /\ a.t = "int" /\ b.t = "int" -> [ok |-> TRUE, v |-> VInt(a.v - b.v)]
    [] op = "*" /\ a.t = "int" /\ b.t = "int" -> [ok |-> TRUE, v |-> VInt(a.v * b.v)]
    [] op = "/" /\ a.t = "int" /\ b.t = "int" ->
         (IF b.v = 0 THEN [ok |-> FALSE, v |-> VErr("ZeroDivisionError", "")]
          ELSE [ok |-> TRUE, v |-> VInt(TDiv(a.v, b.v))])
    [] op = "<" /\ a.t = "int" /\ b.t = "int" -> [ok |-> TRUE, v |-> VBool(a.v < b.v)]
    [] op = ">" /\ a.t = "int" /\ b.t = "int" -> [ok |-> TRUE, v |-> VBool(a.v > b.v)]
    [] op = "+" /\ a.t = "str" /\ b.t = "str" -> [ok |-> TRUE, v |-> VStr(a.v \o b.v)]
    [] op = "+" /\ a.t = "str" /\ b.t = "int" -> [ok |-> TRUE, v |-> VStr(a.v \o ToString(b.v))]
    [] op = "+" /\ a.t = "arr" -> [ok |-> TRUE, v |-> VArr(Append(a.v, b))]
    [] op \in {"+", "-", "*", "/"} /\ {a.t, b.t} = {"int", "str"} /\ a.t = "int" -> [ok |-> FALSE, v |-> VErr("TypeError", "")]
    [] op \in {"-", "*", "/"} /\ a.t = "str" /\ b.t \in {"int", "str"} -> [ok |-> FALSE, v |-> VErr("TypeError", "")]
    \* every other combination is outside the modelled fragment of docs/operators.md
    [] OTHER -> [ok |-> FALSE, v |-> VErr("unmodelled-op", op)]

MaxDepth == 12   \* call depth fuel
MaxIter  == 6

RECURSIVE Eval(_,_,_,_), EvalList(_,_,_,_,_), Apply(_,_,_,_), ExecSeq(_,_,_,_,_), ExecS(_,_,_,_),
          ForLoop(_,_,_,_,_), ForInLoop(_,_,_,_,_,_), BindAll(_,_,_,_,_), DestrAll(_,_,_,_,_,_), ConstAll(_,_,_,_,_),
          SeqApply(_,_,_,_,_,_)

ReadVar(b, st) == IF b.k = "g" THEN (IF b.n \in DOMAIN st.globals THEN st.globals[b.n] ELSE VUndef) ELSE st.store[b.a]
WriteVar(b, v, st) == IF b.k = "g" THEN [st EXCEPT !.globals = FunUpd(@, b.n, v)] ELSE [st EXCEPT !.store[b.a] = v]

\* ---- expressions
Eval(e, env, st, d) ==
  CASE e.k = "lit" -> OkR(e.v, st)
    [] e.k = "id" ->
         LET a == Lookup(env, e.n) IN
         IF a.k # "none" THEN OkR(ReadVar(a, st), st)
         ELSE IF e.n \in Builtins /\ e.n \notin st.disabled THEN OkR(VBi(e.n), st)
         ELSE ErrR(VErr("unresolved", e.n), st)
    [] e.k = "fn" -> OkR(VFn(e, env), st)
    [] e.k = "arr" -> LET r == EvalList(e.es, 1, env, st, d) IN IF r.ok THEN OkR(VArr(r.v), r.st) ELSE r
    [] e.k = "map" ->
         LET r == EvalList(e.es, 1, env, st, d) IN
         IF ~r.ok THEN r
         ELSE LET obj == [x \in {e.ks[i] : i \in 1..Len(e.ks)} |-> r.v[CHOOSE i \in 1..Len(e.ks) : e.ks[i] = x /\ \A j \in (i+1)..Len(e.ks) : e.ks[j] # x]]
                  h == Len(r.st.heap) + 1
              IN OkR(VMap(h), [r.st EXCEPT !.heap = Append(@, obj)])
    [] e.k = "un" ->
         LET x == Eval(e.e, env, st, d) IN
         IF ~x.ok THEN x
         ELSE IF e.op = "!" THEN OkR(VBool(Falsy(x.v)), x.st)
         ELSE IF e.op = "-" /\ x.v.t = "int" THEN OkR(VInt(0 - x.v.v), x.st)
         ELSE ErrR(VErr("TypeError", ""), x.st)
    [] e.k = "cond" ->
         LET c == Eval(e.c, env, st, d) IN
         IF ~c.ok THEN c ELSE IF ~Falsy(c.v) THEN Eval(e.a, env, c.st, d) ELSE Eval(e.b, env, c.st, d)
    [] e.k = "bin" ->
         LET l == Eval(e.l, env, st, d) IN
         IF ~l.ok THEN l
         ELSE IF e.op = "&&" THEN (IF Falsy(l.v) THEN l ELSE Eval(e.r, env, l.st, d))
         ELSE IF e.op = "||" THEN (IF Falsy(l.v) THEN Eval(e.r, env, l.st, d) ELSE l)
         ELSE LET r == Eval(e.r, env, l.st, d) IN
              IF ~r.ok THEN r
              ELSE LET x == BinOp(e.op, l.v, r.v, r.st) IN IF x.ok THEN OkR(x.v, r.st) ELSE ErrR(x.v, r.st)
    [] e.k = "idx" ->
         LET a == Eval(e.e, env, st, d) IN
         IF ~a.ok THEN a
         ELSE LET i == Eval(e.i, env, a.st, d) IN
              IF ~i.ok THEN i
              ELSE IF a.v.t = "arr" /\ i.v.t = "int"
                   THEN (IF i.v.v >= 0 /\ i.v.v < Len(a.v.v) THEN OkR(a.v.v[i.v.v + 1], i.st)
                         ELSE ErrR(VErr("IndexOutOfBoundsError", ""), i.st))
                   ELSE IF a.v.t = "map" /\ i.v.t = "str"
                   THEN (IF i.v.v \in DOMAIN i.st.heap[a.v.h] THEN OkR(i.st.heap[a.v.h][i.v.v], i.st) ELSE OkR(VUndef, i.st))
                   ELSE ErrR(VErr("NotIndexableError", ""), i.st)
    [] e.k = "slice" ->     \* a slice is a value here: the families never write through one
         LET a == Eval(e.e, env, st, d) IN
         IF ~a.ok THEN a
         ELSE IF a.v.t # "arr" THEN ErrR(VErr("unmodelled-op", "slice"), a.st)
         ELSE LET lo == IF e.lo < 0 THEN 0 ELSE e.lo
                  hi == IF e.hi < 0 THEN Len(a.v.v) ELSE e.hi IN
              IF lo <= hi /\ hi <= Len(a.v.v) THEN OkR(VArr(SubSeq(a.v.v, lo + 1, hi)), a.st)
              ELSE ErrR(VErr("unmodelled-op", "slice"), a.st)
    [] e.k = "sel" ->
         LET a == Eval(e.e, env, st, d) IN
         IF ~a.ok THEN a
         ELSE IF a.v.t = "map" THEN (IF e.n \in DOMAIN a.st.heap[a.v.h] THEN OkR(a.st.heap[a.v.h][e.n], a.st) ELSE OkR(VUndef, a.st))
         ELSE ErrR(VErr("NotIndexableError", ""), a.st)
    [] e.k = "import" ->
         IF e.n \in DOMAIN st.mods THEN OkR(st.mods[e.n], st)
         ELSE IF e.n \notin DOMAIN st.msrc THEN ErrR(VErr("unresolved-module", e.n), st)
         \* "bm" is the builtin (Go) module: its body is a map literal, evaluated per run (the value is private to the run), nothing is logged
         ELSE LET r == ExecSeq(st.msrc[e.n], 1, Push(<<>>), [st EXCEPT !.log = IF e.n = "bm" THEN @ ELSE Append(@, VStr("load:" \o e.n))], d + 1)
                  v == IF r.o[1] = "ret" THEN r.o[2] ELSE VUndef
              IN IF r.o[1] = "thr" THEN ErrR(r.o[2], r.st)
                 ELSE OkR(v, [r.st EXCEPT !.mods = FunUpd(@, e.n, v)])
    [] e.k = "call" ->
         LET f == Eval(e.f, env, st, d) IN
         IF ~f.ok THEN f
         ELSE LET as == EvalList(e.as, 1, env, f.st, d) IN
              IF ~as.ok THEN as
              ELSE IF e.sp
                   THEN LET last == as.v[Len(as.v)] IN
                        IF last.t # "arr" THEN ErrR(VErr("TypeError", ""), as.st)
                        ELSE Apply(f.v, SubSeq(as.v, 1, Len(as.v) - 1) \o last.v, as.st, d)
                   ELSE Apply(f.v, as.v, as.st, d)

EvalList(es, i, env, st, d) ==
  IF i > Len(es) THEN [ok |-> TRUE, v |-> <<>>, st |-> st]
  ELSE LET r == Eval(es[i], env, st, d) IN
       IF ~r.ok THEN r
       ELSE LET rest == EvalList(es, i + 1, env, r.st, d) IN
            IF ~rest.ok THEN rest ELSE [ok |-> TRUE, v |-> <<r.v>> \o rest.v, st |-> rest.st]

\* bind parameters: returns <<env, st>>
BindAll(env, st, ps, vs, i) ==
  IF i > Len(ps) THEN <<env, st>>
  ELSE LET x == Declare(env, st, ps[i], vs[i]) IN BindAll(x[1], x[2], ps, vs, i + 1)

Apply(f, args, st, d) ==
  IF d > MaxDepth THEN ErrR(VErr("diverge", ""), st)
  ELSE IF f.t = "bi" /\ f.n \in {"cbcall", "cbcall2"} THEN
    \* a Go function of the host that calls its first argument with the remaining ones through an
    \* Invoker (pooled / not pooled): by C14 this is the call itself
    (IF Len(args) >= 1 THEN Apply(args[1], Tail(args), st, d + 1) ELSE ErrR(VErr("WrongNumberOfArgumentsError", ""), st))
  ELSE IF f.t = "bi" /\ f.n \in {"cbseq", "cbseq2", "cbseq3"} THEN
    \* host function: one Invoker (acquired once) calls the function once per argument list and collects
    \* the results, a thrown error being collected as a value
    (IF Len(args) = 2 /\ args[2].t = "arr" THEN SeqApply(args[1], args[2].v, 1, st, d, <<>>)
     ELSE ErrR(VErr("WrongNumberOfArgumentsError", ""), st))
  ELSE IF f.t = "bi" THEN
    CASE f.n = "int" /\ Len(args) = 1 /\ args[1].t = "str" /\ args[1].v \in DOMAIN StrToInt -> OkR(VInt(StrToInt[args[1].v]), st)
      [] f.n = "int" /\ Len(args) = 1 /\ args[1].t = "int" -> OkR(args[1], st)
      [] f.n = "string" /\ Len(args) = 1 /\ args[1].t = "int" -> OkR(VStr(ToString(args[1].v)), st)
      [] f.n = "string" /\ Len(args) = 1 /\ args[1].t = "str" -> OkR(args[1], st)
      [] f.n = "bool" /\ Len(args) = 1 -> OkR(VBool(~Falsy(args[1])), st)
      [] f.n = "len" /\ Len(args) = 1 /\ args[1].t = "arr" -> OkR(VInt(Len(args[1].v)), st)
      [] f.n = "len" /\ Len(args) = 1 /\ args[1].t = "str" -> OkR(VInt(Len(args[1].v)), st)
      [] f.n = "append" /\ Len(args) >= 1 /\ args[1].t = "arr" -> OkR(VArr(args[1].v \o SubSeq(args, 2, Len(args))), st)
      [] f.n = "error" /\ Len(args) = 1 /\ args[1].t = "str" -> OkR(VErr("error", args[1].v), st)
      [] f.n = "isError" /\ Len(args) = 1 -> OkR(VBool(args[1].t = "err"), st)
      [] f.n = "typeName" /\ Len(args) = 1 -> OkR(VStr(TypeName(args[1])), st)
      [] f.n \in {"int", "string", "bool", "len", "error", "typeName"} /\ Len(args) # 1 -> ErrR(VErr("WrongNumberOfArgumentsError", ""), st)
      [] OTHER -> ErrR(VErr("unmodelled-builtin-call", f.n), st)
  ELSE IF f.t # "fn" THEN ErrR(VErr("NotCallableError", ""), st)
  ELSE
    LET ps == f.fn.ps  np == Len(ps)  na == Len(args) IN
    IF (~f.fn.va /\ na # np) \/ (f.fn.va /\ na < np - 1) THEN ErrR(VErr("WrongNumberOfArgumentsError", ""), st)
    ELSE LET vals == IF f.fn.va THEN SubSeq(args, 1, np - 1) \o <<VArr(SubSeq(args, np, na))>> ELSE args
             x == BindAll(Push(f.env), st, ps, vals, 1)
             r == ExecSeq(f.fn.b, 1, x[1], x[2], d + 1)
         IN CASE r.o[1] = "ret" -> OkR(r.o[2], r.st)
              [] r.o[1] = "thr" -> ErrR(r.o[2], r.st)
              [] OTHER -> OkR(VUndef, r.st)

SeqApply(f, lists, i, st, d, acc) ==
  IF i > Len(lists) THEN OkR(VArr(acc), st)
  ELSE LET r == Apply(f, lists[i].v, st, d + 1) IN SeqApply(f, lists, i + 1, r.st, d, Append(acc, r.v))

\* ---- statements.  result [o, env, st]
SR(o, env, st) == [o |-> o, env |-> env, st |-> st]
ExecSeq(b, i, env, st, d) ==
  IF i > Len(b) THEN SR(Norm, env, st)
  ELSE LET r == ExecS(b[i], env, st, d) IN
       IF r.o # Norm THEN r ELSE ExecSeq(b, i + 1, r.env, r.st, d)

ExecBlock(b, env, st, d) == LET r == ExecSeq(b, 1, Push(env), st, d) IN SR(r.o, env, r.st)

\* n1, n2, ... := vals (missing -> undefined)
DestrAll(env, st, ns, vals, def, i) ==
  IF i > Len(ns) THEN <<env, st>>
  ELSE LET v == IF i <= Len(vals) THEN vals[i] ELSE VUndef IN
       IF def /\ Lookup(<<env[Len(env)]>>, ns[i]).k = "none"
       THEN LET x == Declare(env, st, ns[i], v) IN DestrAll(x[1], x[2], ns, vals, def, i + 1)
       ELSE DestrAll(env, WriteVar(Lookup(env, ns[i]), v, st), ns, vals, def, i + 1)

\* const ( n1 = e; n2; ... ) : e is evaluated once per name with iota = position
ConstAll(env, st, s, d, i) ==
  IF i > Len(s.ns) THEN SR(Norm, env, st)
  ELSE LET ie == Declare(Push(env), st, "iota", VInt(i - 1))
           r  == Eval(s.e, ie[1], ie[2], d) IN
       IF ~r.ok THEN SR(<<"thr", r.v>>, env, r.st)
       ELSE LET x == Declare(env, r.st, s.ns[i], r.v) IN ConstAll(x[1], x[2], s, d, i + 1)

Thrown(v) == IF v.t = "err" THEN v ELSE VErr("error", IF v.t = "str" THEN v.v ELSE IF v.t = "int" THEN ToString(v.v) ELSE "?")

ExecS(s, env, st, d) ==
  CASE s.k \in {"def", "const", "vari"} ->
         LET r == Eval(s.e, env, st, d) IN
         IF ~r.ok THEN SR(<<"thr", r.v>>, env, r.st)
         ELSE LET x == Declare(env, r.st, s.n, r.v) IN SR(Norm, x[1], x[2])
    [] s.k = "var" -> LET x == Declare(env, st, s.n, VUndef) IN SR(Norm, x[1], x[2])
    [] s.k = "constg" -> ConstAll(env, st, s, d, 1)
    [] s.k = "param" ->
         LET RECURSIVE go(_,_,_)
             go(e2, s2, i) == IF i > Len(s.ns) THEN <<e2, s2>>
                              ELSE LET x == Declare(e2, s2, s.ns[i], IF i <= Len(st.args) THEN st.args[i] ELSE VUndef)
                                   IN go(x[1], x[2], i + 1)
             r == go(env, st, 1)
         IN SR(Norm, r[1], r[2])
    [] s.k = "paramv" ->
         LET fixed == Len(s.ns) - 1
             RECURSIVE go(_,_,_)
             go(e2, s2, i) == IF i > fixed THEN <<e2, s2>>
                              ELSE LET x == Declare(e2, s2, s.ns[i], IF i <= Len(st.args) THEN st.args[i] ELSE VUndef)
                                   IN go(x[1], x[2], i + 1)
             r == go(env, st, 1)
             rest == IF Len(st.args) > fixed THEN SubSeq(st.args, fixed + 1, Len(st.args)) ELSE <<>>
             y == Declare(r[1], r[2], s.ns[Len(s.ns)], VArr(rest))
         IN SR(Norm, y[1], y[2])
    [] s.k = "global" ->
         LET RECURSIVE gg(_,_)
             gg(e2, i) == IF i > Len(s.ns) THEN e2 ELSE gg(Bind(e2, s.ns[i], GloB(s.ns[i])), i + 1)
         IN SR(Norm, gg(env, 1), st)
    [] s.k = "asg" ->
         LET r == Eval(s.e, env, st, d) IN
         IF ~r.ok THEN SR(<<"thr", r.v>>, env, r.st)
         ELSE SR(Norm, env, WriteVar(Lookup(env, s.n), r.v, r.st))
    [] s.k = "cmp" ->       \* n op= e : the current value of n is read first
         LET cur == ReadVar(Lookup(env, s.n), st)
             r   == Eval(s.e, env, st, d) IN
         IF ~r.ok THEN SR(<<"thr", r.v>>, env, r.st)
         ELSE LET x == BinOp(s.op, cur, r.v, r.st) IN
              IF ~x.ok THEN SR(<<"thr", x.v>>, env, r.st)
              ELSE SR(Norm, env, WriteVar(Lookup(env, s.n), x.v, r.st))
    [] s.k = "cmpi" ->      \* t[i] op= e means t[i] = t[i] op e: target and index are evaluated for the read and again for the write
         ExecS(AsgI(s.t, s.i, Bin(s.op, Idx(s.t, s.i), s.e)), env, st, d)
    [] s.k = "asgi" ->      \* t[i] = e : right-hand side first, then target, then index
         LET r == Eval(s.e, env, st, d) IN
         IF ~r.ok THEN SR(<<"thr", r.v>>, env, r.st)
         ELSE LET t == Eval(s.t, env, r.st, d) IN
              IF ~t.ok THEN SR(<<"thr", t.v>>, env, t.st)
              ELSE LET i == Eval(s.i, env, t.st, d) IN
                   IF ~i.ok THEN SR(<<"thr", i.v>>, env, i.st)
                   ELSE IF t.v.t = "map" /\ i.v.t = "str"
                        THEN SR(Norm, env, [i.st EXCEPT !.heap[t.v.h] = FunUpd(@, i.v.v, r.v)])
                        ELSE IF t.v.t = "arr" /\ i.v.t = "int" /\ s.t.k = "id"
                        THEN (IF i.v.v >= 0 /\ i.v.v < Len(t.v.v)
                              THEN SR(Norm, env, WriteVar(Lookup(env, s.t.n), VArr([t.v.v EXCEPT ![i.v.v + 1] = r.v]), i.st))
                              ELSE SR(<<"thr", VErr("IndexOutOfBoundsError", "")>>, env, i.st))
                        ELSE SR(<<"thr", VErr("NotIndexAssignableError", "")>>, env, i.st)
    [] s.k = "asgs" ->
         LET r == Eval(s.e, env, st, d) IN
         IF ~r.ok THEN SR(<<"thr", r.v>>, env, r.st)
         ELSE LET t == Eval(s.t, env, r.st, d) IN
              IF ~t.ok THEN SR(<<"thr", t.v>>, env, t.st)
              ELSE IF t.v.t = "map" THEN SR(Norm, env, [t.st EXCEPT !.heap[t.v.h] = FunUpd(@, s.n, r.v)])
              ELSE SR(<<"thr", VErr("NotIndexAssignableError", "")>>, env, t.st)
    [] s.k = "destr" ->
         LET r == Eval(s.e, env, st, d) IN
         IF ~r.ok THEN SR(<<"thr", r.v>>, env, r.st)
         ELSE LET vals == IF r.v.t = "arr" THEN r.v.v ELSE <<r.v>>
                  x == DestrAll(env, r.st, s.ns, vals, s.d, 1)
              IN SR(Norm, x[1], x[2])
    [] s.k = "expr" -> LET r == Eval(s.e, env, st, d) IN IF r.ok THEN SR(Norm, env, r.st) ELSE SR(<<"thr", r.v>>, env, r.st)
    [] s.k = "log" -> LET r == Eval(s.e, env, st, d) IN
                      IF r.ok THEN SR(Norm, env, [r.st EXCEPT !.log = Append(@, r.v)]) ELSE SR(<<"thr", r.v>>, env, r.st)
    [] s.k = "ret" -> LET r == Eval(s.e, env, st, d) IN IF r.ok THEN SR(<<"ret", r.v>>, env, r.st) ELSE SR(<<"thr", r.v>>, env, r.st)
    [] s.k = "ret0" -> SR(<<"ret", VUndef>>, env, st)
    [] s.k = "thr" -> LET r == Eval(s.e, env, st, d) IN
                      IF ~r.ok THEN SR(<<"thr", r.v>>, env, r.st)
                      ELSE SR(<<"thr", Thrown(r.v)>>, env, r.st)
    [] s.k = "brk" -> SR(<<"brk">>, env, st)
    [] s.k = "cnt" -> SR(<<"cnt">>, env, st)
    [] s.k = "if" ->
         LET c == Eval(s.c, env, st, d) IN
         IF ~c.ok THEN SR(<<"thr", c.v>>, env, c.st)
         ELSE IF ~Falsy(c.v) THEN ExecBlock(s.t, env, c.st, d) ELSE ExecBlock(s.f, env, c.st, d)
    [] s.k = "for" ->
         LET e1 == Push(env)
             i  == ExecSeq(s.i, 1, e1, st, d)
         IN IF i.o # Norm THEN SR(i.o, env, i.st)
            ELSE LET r == ForLoop(s, i.env, i.st, d, 0) IN SR(r.o, env, r.st)
    [] s.k = "forin" ->
         LET a == Eval(s.e, env, st, d) IN
         IF ~a.ok THEN SR(<<"thr", a.v>>, env, a.st)
         ELSE IF a.v.t # "arr" THEN SR(<<"thr", VErr("NotIterableError", "")>>, env, a.st)
         ELSE LET r == ForInLoop(s, a.v.v, 1, env, a.st, d) IN SR(r.o, env, r.st)
    [] s.k = "try" ->
         LET e1 == Push(env)
             r1 == ExecSeq(s.b, 1, e1, st, d)
             r2 == IF s.hc /\ r1.o[1] = "thr"
                   THEN LET x == IF s.cn # "" THEN Declare(r1.env, r1.st, s.cn, r1.o[2]) ELSE <<r1.env, r1.st>>
                        IN ExecSeq(s.c, 1, x[1], x[2], d)
                   ELSE IF s.hc /\ s.cn # "" /\ r1.o = Norm
                        THEN LET x == Declare(r1.env, r1.st, s.cn, VUndef) IN SR(r1.o, x[1], x[2])
                        ELSE r1
         IN IF s.hf
            THEN LET r3 == ExecSeq(s.f, 1, r2.env, r2.st, d)
                 IN SR(IF r3.o = Norm THEN r2.o ELSE r3.o, env, r3.st)
            ELSE SR(r2.o, env, r2.st)

ForLoop(s, env, st, d, n) ==
  IF n > MaxIter THEN SR(<<"thr", VErr("diverge", "")>>, env, st)
  ELSE LET c == Eval(s.c, env, st, d) IN
       IF ~c.ok THEN SR(<<"thr", c.v>>, env, c.st)
       ELSE IF Falsy(c.v) THEN SR(Norm, env, c.st)
       ELSE LET b == ExecBlock(s.b, env, c.st, d) IN
            IF b.o[1] = "brk" THEN SR(Norm, env, b.st)
            ELSE IF b.o[1] \in {"ret", "thr"} THEN SR(b.o, env, b.st)
            ELSE LET p == ExecSeq(s.p, 1, env, b.st, d) IN
                 IF p.o # Norm THEN SR(p.o, env, p.st) ELSE ForLoop(s, env, p.st, d, n + 1)

ForInLoop(s, arr, i, env, st, d) ==
  IF i > Len(arr) THEN SR(Norm, env, st)
  ELSE LET e1 == Push(env)
           x1 == IF s.kn # "_" THEN Declare(e1, st, s.kn, VInt(i - 1)) ELSE <<e1, st>>
           x2 == IF s.vn # "_" THEN Declare(x1[1], x1[2], s.vn, arr[i]) ELSE x1
           b  == ExecBlock(s.b, x2[1], x2[2], d)
       IN IF b.o[1] = "brk" THEN SR(Norm, env, b.st)
          ELSE IF b.o[1] \in {"ret", "thr"} THEN SR(b.o, env, b.st)
          ELSE ForInLoop(s, arr, i + 1, env, b.st, d)

(* ---------------- static name resolution (what the single-pass compiler sees) ----------------
   BRefs(block, sc) = the set of builtin names the text refers to *as builtins*: every identifier
   use, in every branch and in every function body (visited at its definition), that no enclosing
   scope has declared so far.  sc is a sequence of sets of declared names. *)
Declared(sc, n) == \E i \in 1..Len(sc) : n \in sc[i]
DeclS(sc, ns) == [sc EXCEPT ![Len(sc)] = @ \cup ns]
SeqSet(q) == {q[i] : i \in 1..Len(q)}
RECURSIVE ERefs(_,_), ERefsL(_,_,_), BRefsFrom(_,_,_)
ERefs(e, sc) ==
  CASE e.k = "lit" -> {}
    [] e.k = "id" -> IF ~Declared(sc, e.n) /\ e.n \in Builtins THEN {e.n} ELSE {}
    [] e.k = "fn" -> BRefsFrom(e.b, 1, Append(sc, SeqSet(e.ps)))[1]
    [] e.k \in {"arr", "map"} -> ERefsL(e.es, 1, sc)
    [] e.k = "un" -> ERefs(e.e, sc)
    [] e.k = "cond" -> ERefs(e.c, sc) \cup ERefs(e.a, sc) \cup ERefs(e.b, sc)
    [] e.k = "bin" -> ERefs(e.l, sc) \cup ERefs(e.r, sc)
    [] e.k = "idx" -> ERefs(e.e, sc) \cup ERefs(e.i, sc)
    [] e.k = "slice" -> ERefs(e.e, sc)
    [] e.k = "sel" -> ERefs(e.e, sc)
    [] e.k = "import" -> {}
    [] e.k = "call" -> ERefs(e.f, sc) \cup ERefsL(e.as, 1, sc)
ERefsL(es, i, sc) == IF i > Len(es) THEN {} ELSE ERefs(es[i], sc) \cup ERefsL(es, i + 1, sc)
\* returns <<refs, scopes after the block's statements>>
BRefsFrom(b, i, sc) ==
  IF i > Len(b) THEN <<{}, sc>>
  ELSE LET s == b[i]
           one ==
             CASE s.k \in {"def", "const", "vari"} -> <<ERefs(s.e, sc), DeclS(sc, {s.n})>>
               [] s.k = "var" -> <<{}, DeclS(sc, {s.n})>>
               [] s.k = "constg" -> <<ERefs(s.e, Append(sc, {"iota"})), DeclS(sc, SeqSet(s.ns))>>
               [] s.k \in {"param", "paramv", "global"} -> <<{}, DeclS(sc, SeqSet(s.ns))>>
               [] s.k \in {"asg", "cmp"} -> <<ERefs(s.e, sc) \cup ERefs(Id(s.n), sc), sc>>
               [] s.k \in {"asgi", "cmpi"} -> <<ERefs(s.e, sc) \cup ERefs(s.t, sc) \cup ERefs(s.i, sc), sc>>
               [] s.k = "asgs" -> <<ERefs(s.e, sc) \cup ERefs(s.t, sc), sc>>
               [] s.k = "destr" -> <<ERefs(s.e, sc), IF s.d THEN DeclS(sc, SeqSet(s.ns)) ELSE sc>>
               [] s.k \in {"expr", "log", "ret", "thr"} -> <<ERefs(s.e, sc), sc>>
               [] s.k \in {"ret0", "brk", "cnt"} -> <<{}, sc>>
               [] s.k = "if" -> <<ERefs(s.c, sc) \cup BRefsFrom(s.t, 1, Append(sc, {}))[1] \cup BRefsFrom(s.f, 1, Append(sc, {}))[1], sc>>
               [] s.k = "for" ->
                    LET i1 == BRefsFrom(s.i, 1, Append(sc, {})) IN
                    <<i1[1] \cup ERefs(s.c, i1[2]) \cup BRefsFrom(s.p, 1, i1[2])[1] \cup BRefsFrom(s.b, 1, Append(i1[2], {}))[1], sc>>
               [] s.k = "forin" ->
                    <<ERefs(s.e, sc) \cup BRefsFrom(s.b, 1, Append(Append(sc, {s.kn, s.vn} \ {"_"}), {}))[1], sc>>
               [] s.k = "try" ->
                    LET t1 == BRefsFrom(s.b, 1, Append(sc, {}))
                        sc2 == IF s.hc /\ s.cn # "" THEN DeclS(t1[2], {s.cn}) ELSE t1[2]
                        t2 == IF s.hc THEN BRefsFrom(s.c, 1, sc2) ELSE <<{}, sc2>>
                        t3 == IF s.hf THEN BRefsFrom(s.f, 1, t2[2]) ELSE <<{}, t2[2]>>
                    IN <<t1[1] \cup t2[1] \cup t3[1], sc>>
           rest == BRefsFrom(b, i + 1, one[2])
       IN <<one[1] \cup rest[1], rest[2]>>
\* all builtin references of a program: main script and every module (modules have their own root scope)
ProgRefs(p) == BRefsFrom(p.body, 1, <<{}>>)[1] \cup UNION {BRefsFrom(p.mods[m], 1, <<{}>>)[1] : m \in DOMAIN p.mods}

\* sanitised values for export: functions lose their environment, maps are dereferenced
RECURSIVE San(_,_)
San(v, st) == CASE v.t = "fn" -> [t |-> "fn"]
                [] v.t = "bi" -> [t |-> "bi", n |-> v.n]
                [] v.t = "arr" -> [t |-> "arr", v |-> [i \in 1..Len(v.v) |-> San(v.v[i], st)]]
                [] v.t = "map" -> [t |-> "map", v |-> [k \in DOMAIN st.heap[v.h] |-> San(st.heap[v.h][k], st)]]
                [] OTHER -> v

\* a whole program: [body, mods (name -> body), args, globals (name -> value), disabled]
RunP(p) ==
  LET st == [St0 EXCEPT !.msrc = p.mods, !.args = p.args, !.globals = p.globals, !.disabled = p.disabled]
      r  == ExecSeq(p.body, 1, Push(<<>>), st, 0)
      o  == IF r.o[1] \in {"ret", "thr"} THEN r.o ELSE <<"ret", VUndef>>
  IN [o |-> <<o[1], San(o[2], r.st)>>,
      log |-> [i \in 1..Len(r.st.log) |-> San(r.st.log[i], r.st)],
      globals |-> [g \in DOMAIN r.st.globals |-> San(r.st.globals[g], r.st)]]
P0(body) == [body |-> body, mods |-> <<>>, args |-> <<>>, globals |-> <<>>, disabled |-> {}]
=============================================================================
