CONSTANTS
  Part = "near"
  MaxLen = 2
SPECIFICATION Spec
INVARIANTS Export
