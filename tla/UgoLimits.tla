------------------------------ MODULE UgoLimits ------------------------------
(* C05: Compile is total.

   Part "limits": the capacity limits of the bytecode format follow from the
   operand widths of opcodes.go (dumped by the harness): an operand of w bytes
   holds 0 .. 256^w - 1.  For every resource x {limit - 1, limit, limit + 1} x
   declaring form x nesting TLC predicts "ok" (fits) or "error" (exceeds; for
   local variables the documented SymbolLimitError).  Whatever the prediction,
   Compile must return bytecode or an error - never panic.
   Part "soup": every token string up to MaxLen over a token alphabet; nothing
   is predicted except totality and, on success, well-formed bytecode. *)
EXTENDS Integers, Sequences, FiniteSets, TLC, Json, CSV, IOUtils

CONSTANTS Part, MaxLen

W2 == JsonDeserialize(IOEnv.W2)       \* operand widths per opcode of the current format (index = opcode + 1)
OpCall == 2  OpGetLocal == 5  OpArray == 17  OpMap == 16  OpConstant == 1  OpDefineLocal == 40
Cap(op, k) == 256 ^ (W2[op + 1][k])   \* number of values operand k of op can hold

\* resource -> capacity (maximal count that fits)
Capacity(r) ==
  CASE r = "locals"   -> Cap(OpGetLocal, 1)            \* local indexes 0 .. 255
    [] r = "params"   -> Cap(OpGetLocal, 1)
    [] r = "callargs" -> Cap(OpCall, 1) - 1            \* CALL numArgs operand
    [] r = "arrayelems" -> Cap(OpArray, 1) - 1
    [] r = "mapelems" -> (Cap(OpMap, 1) - 1) \div 2    \* MAP operand counts keys and values
    [] r = "constants" -> Cap(OpConstant, 1)           \* constant indexes
Resources == {"locals", "params", "callargs", "arrayelems", "mapelems", "constants"}
Nestings == {"main", "function", "module", "fragment"}
Forms(r) == CASE r = "locals" -> {"define", "var", "const", "block-reuse", "forin-hidden"}
              [] r = "params" -> {"plain", "variadic"}
              [] r = "callargs" -> {"plain", "spread"}
              [] OTHER -> {"literal"}

Predict(r, n) == IF n <= Capacity(r) THEN "ok" ELSE "error"

Tokens == <<"x", "y", "1", "\"s\"", ":=", "=", "(", ")", "{", "}", "[", "]", ",", ";", "func", "return", "if", "else", "for", "in",
            "try", "catch", "finally", "throw", "import", ".", "...", "+", "const", "var", "param", "global", "break", "?", ":", "\n", "'c'", "iota", "undefined", "!"  >>
NT == Len(Tokens)

(* Part "near": valid skeleton programs covering every statement kind, changed by one
   (MaxLen = 1) or two (MaxLen = 2) token-level edits - insertion of any alphabet token,
   deletion, replacement, duplication of a two-token window (one more element in any
   list), exchange of neighbours.  This reaches the error paths of the parser and the
   compiler at lengths the exhaustive token strings cannot. *)
Skel == <<
  <<"global", "(", "x", ",", "y", ")", "\n", "for", "x", ",", "y", "in", "[", "1", "]", "{", "x", "=", "y", "}">>,
  <<"global", "(", "x", ",", "y", ")", "\n", "if", "x", "{", "y", "=", "1", "}", "else", "{", "return", "x", "&&", "y", "}">>,
  <<"global", "(", "x", ",", "y", ")", "\n", "f", ":=", "func", "(", "a", ",", "...", "b", ")", "{", "return", "a", "+", "x", "}", "\n",
    "return", "f", "(", "1", ",", "...", "[", "y", "]", ")">>,
  <<"global", "x", "\n", "try", "{", "throw", "x", "}", "catch", "e", "{", "return", "e", "}", "finally", "{", "x", "=", "1", "}">>,
  <<"global", "x", "\n", "for", "i", ":=", "0", ";", "i", "<", "3", ";", "i", "++", "{", "if", "i", "{", "continue", "}", "\n", "break", "}">>,
  <<"const", "(", "a", "=", "iota", ",", "b", ")", "\n", "var", "(", "c", ",", "d", "=", "1", ")", "\n", "return", "[", "a", ",", "b", ",", "c", ",", "d", "]">>,
  <<"global", "x", "\n", "a", ",", "b", ":=", "[", "1", ",", "2", "]", "\n", "a", ",", "b", "=", "[", "b", ",", "a", "]", "\n", "return", "a">>,
  <<"global", "x", "\n", "return", "x", "?", "{", "k", ":", "1", ",", "\"s\"", ":", "[", "2", "]", "}", ".", "k", ":", "x", "[", "0", "]", "[", "1", ":", "2", "]">>,
  <<"param", "(", "a", ",", "...", "b", ")", "\n", "global", "x", "\n", "return", "import", "(", "\"m\"", ")", ".", "k", "(", "a", ")">>,
  <<"global", "x", "\n", "x", "+=", "1", "\n", "x", "++", "\n", "return", "!", "x", "==", "-", "x", "||", "'c'", "<", "\"s\"">>,
  <<"global", "x", "\n", "for", "{", "x", "=", "func", "(", ")", "{", "return", "1", "}", "(", ")", "\n", "if", "x", "{", "break", "}", "}">>,
  <<"global", "x", "\n", "for", "x", "{", "try", "{", "return", "1", "}", "finally", "{", "x", "=", "2", "}", "}", "\n", "return", "x", "||", "x", "&&", "1">>,
  <<"x", ":=", "len", "(", "[", "]", ")", "\n", "y", ",", "len", ":=", "[", "1", ",", "2", "]", "\n", "return", "[", "x", ",", "y", ",", "len", "]">>,
  <<"global", "x", "\n", "const", "k", "=", "2", "\n", "f", ":=", "func", "(", "k", ")", "{", "return", "k", "+", "x", "}", "\n", "return", "f", "(", "k", ")", "+", "k">>,
  <<"try", "{", "const", "e", "=", "1", "\n", "var", "v", "}", "catch", "e", "{", "return", "e", "}", "finally", "{", "v", ":=", "2", "}">>,
  <<"for", "k", ",", "v", "in", "{", "a", ":", "1", "}", "{", "const", "v", "=", "k", "\n", "k", ":=", "v", "}">>
>>
MaxSkel == 34
\* an edit: t = 0 none, 1 insert token y after position p, 2 delete position p, 3 replace position p by token y,
\* 4 repeat the window p, p+1 after itself, 5 exchange positions p and p+1
EditOK(s, e) == CASE e.t = 0 -> e.p = 0 /\ e.y = 1
                  [] e.t = 1 -> e.p \in 0..Len(s)
                  [] e.t = 2 -> e.p \in 1..Len(s) /\ e.y = 1
                  [] e.t = 3 -> e.p \in 1..Len(s) /\ Tokens[e.y] # s[e.p]
                  [] OTHER   -> e.p \in 1..(Len(s) - 1) /\ e.y = 1 /\ (e.t = 5 => s[e.p] # s[e.p + 1])
Edit(s, e) == CASE e.t = 0 -> s
                [] e.t = 1 -> SubSeq(s, 1, e.p) \o <<Tokens[e.y]>> \o SubSeq(s, e.p + 1, Len(s))
                [] e.t = 2 -> SubSeq(s, 1, e.p - 1) \o SubSeq(s, e.p + 1, Len(s))
                [] e.t = 3 -> [s EXCEPT ![e.p] = Tokens[e.y]]
                [] e.t = 4 -> SubSeq(s, 1, e.p + 1) \o SubSeq(s, e.p, Len(s))
                [] OTHER   -> [s EXCEPT ![e.p] = s[e.p + 1], ![e.p + 1] = s[e.p]]
EditSet == [t : 0..5, p : 0..(MaxSkel + 2), y : 1..NT]
NoEdit == [t |-> 0, p |-> 0, y |-> 1]
\* the second edit is structural only (the neighbourhood of two arbitrary edits is out of reach)
Edit2Set == [t : {2, 4, 5}, p : 1..(MaxSkel + 2), y : {1}]

(* Part "evalseq": an Eval session is a sequence of fragments compiled against the state
   earlier fragments left behind - including fragments that failed half way (after an
   import, a declaration, a constant).  Every sequence up to MaxLen fragments over the
   catalogue; only totality and well-formed bytecode are required. *)
Frags == <<"x := import(\"m\")", "x := import(\"m\"); undefinedvar", "return import(\"m\")", "z := import(\"bm\"); undefinedvar",
           "return import(\"bm\").k", "a := 1; undefinedvar", "a := 2", "a = 3; return a", "f := func() { return import(\"m2\") }; undefinedvar",
           "return f()", "const c = 1; undefinedvar", "return c", "g := func() { return a }; return g(", "return import(\"m2\")",
           "for a, b, c in [1] {}", "try { return import(\"m\") } finally { undefinedvar }",
           "global gx; undefinedvar", "return gx", "gx = 1; return gx", "x := len([]); undefinedvar", "y, len := [1, 2]; return [y, len]",
           \* fragments refused for a capacity limit (the harness writes out $A256 = 256 call arguments, $L257 = 257 local
           \* declarations) after they declared a global / locals: what they declared is gone like after any other refusal
           "global gy; hh := func(...a) { return 0 }; return hh($A256)", "return gy", "global gz; $L257; return gz">>

(* Part "bytesoup": every byte string up to MaxLen over the bytes that drive the scanner's own states (comment and
   string delimiters, carriage return, backslash, NUL, a byte that is no UTF-8, a letter, a digit): the scanner sees
   bytes, not tokens *)
SoupBytes == <<47, 42, 13, 10, 34, 96, 39, 92, 97, 48, 32, 0, 255, 35, 33, 46, 101, 120, 95>>   \* / * CR LF " ` ' \ a 0 sp NUL 0xff # ! . e x _

VARIABLES c, ph
vars == <<c, ph>>
\* nesting depth of expressions / statements: no operand width limits it, the compiler's and the optimizer's own
\* bookkeeping (expression levels, recursion) must cope or refuse with an error
Depths == {8, 31, 32, 33, 63, 64, 65, 66, 127, 128, 129, 255, 256, 257, 1000, 3000}
NestKinds == {"parens", "unary", "not", "array", "map", "binary-right", "binary-left", "call", "func", "if", "index", "ternary", "try"}
Init == ph = 0 /\ (IF Part = "limits"
                   THEN \/ c \in {x \in [r : Resources, d : {-1, 0, 1}, nest : Nestings, form : UNION {Forms(r) : r \in Resources}] : x.form \in Forms(x.r)}
                        \/ c \in [r : {"depth"}, d : Depths, nest : {"main", "function"}, form : NestKinds]
                   ELSE IF Part = "near" THEN c \in [d : 1..Len(Skel), e1 : EditSet, e2 : {NoEdit}] /\ EditOK(Skel[c.d], c.e1)
                   ELSE IF Part = "evalseq" THEN c \in [n : 0..MaxLen, s : [1..MaxLen -> 1..Len(Frags)]]
                   ELSE IF Part = "bytesoup" THEN c \in [n : 0..MaxLen, s : [1..MaxLen -> 1..Len(SoupBytes)]]
                   ELSE c \in [n : 0..MaxLen, s : [1..MaxLen -> 1..NT]])
Judge == ph = 0 /\ ph' = 1 /\ UNCHANGED c
\* the second edit is a step (TLC computes initial states single-threaded)
Edit2 == /\ ph = 0 /\ Part = "near" /\ MaxLen >= 2 /\ c.e1.t # 0
         /\ \E e \in Edit2Set : EditOK(Edit(Skel[c.d], c.e1), e) /\ c' = [c EXCEPT !.e2 = e]
         /\ ph' = 1
Next == Judge \/ Edit2
Spec == Init /\ [][Next]_vars
Canon == Part \in {"soup", "evalseq", "bytesoup"} => \A i \in (c.n + 1)..MaxLen : c.s[i] = 1
\* the capacity table is monotone: one more than the capacity never fits
Monotone == (ph = 1 /\ Part = "limits" /\ c.r # "depth") => (Predict(c.r, Capacity(c.r)) = "ok" /\ Predict(c.r, Capacity(c.r) + 1) = "error")
Export == (ph = 1 /\ Canon) =>
  CSVWrite("%1$s", <<ToJson(IF Part = "limits"
                            THEN (IF c.r = "depth" THEN [k |-> "limit", r |-> c.r, n |-> c.d, nest |-> c.nest, form |-> c.form, pred |-> "any"]
                                  ELSE [k |-> "limit", r |-> c.r, n |-> Capacity(c.r) + c.d, nest |-> c.nest, form |-> c.form, pred |-> Predict(c.r, Capacity(c.r) + c.d)])
                            ELSE IF Part = "near" THEN [k |-> "near", s |-> Edit(Edit(Skel[c.d], c.e1), c.e2), v |-> (c.e2.t = 0)]   \* v: compile under every variant (single edits only)
                            ELSE IF Part = "evalseq" THEN [k |-> "evalseq", s |-> [i \in 1..c.n |-> Frags[c.s[i]]]]
                            ELSE IF Part = "bytesoup" THEN [k |-> "bytesoup", b |-> [i \in 1..c.n |-> SoupBytes[c.s[i]]]]
                            ELSE [k |-> "soup", s |-> [i \in 1..c.n |-> Tokens[c.s[i]]]])>>, IOEnv.OUT)
=============================================================================
