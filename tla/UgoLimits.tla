------------------------------ MODULE UgoLimits ------------------------------
(* C05: Compile is total.

   Part "limits": the capacity limits of the bytecode format follow from the
   operand widths of opcodes.go (dumped by the harness): an operand of w bytes
   holds 0 .. 256^w - 1.  For every resource x {limit - 1, limit, limit + 1} x
   declaring form x nesting TLC predicts "ok" (fits) or "error" (exceeds; for
   local variables the documented SymbolLimitError).  Whatever the prediction,
   Compile must return bytecode or an error - never panic.
   Part "soup": every token string up to MaxLen over a token alphabet; nothing
   is predicted except totality and, on success, well-formed bytecode. *)
EXTENDS Integers, Sequences, FiniteSets, TLC, Json, CSV, IOUtils

CONSTANTS Part, MaxLen

W2 == JsonDeserialize(IOEnv.W2)       \* operand widths per opcode of the current format (index = opcode + 1)
OpCall == 2  OpGetLocal == 5  OpArray == 17  OpMap == 16  OpConstant == 1  OpDefineLocal == 40
Cap(op, k) == 256 ^ (W2[op + 1][k])   \* number of values operand k of op can hold

\* resource -> capacity (maximal count that fits)
Capacity(r) ==
  CASE r = "locals"   -> Cap(OpGetLocal, 1)            \* local indexes 0 .. 255
    [] r = "params"   -> Cap(OpGetLocal, 1)
    [] r = "callargs" -> Cap(OpCall, 1) - 1            \* CALL numArgs operand
    [] r = "arrayelems" -> Cap(OpArray, 1) - 1
    [] r = "mapelems" -> (Cap(OpMap, 1) - 1) \div 2    \* MAP operand counts keys and values
    [] r = "constants" -> Cap(OpConstant, 1)           \* constant indexes
Resources == {"locals", "params", "callargs", "arrayelems", "mapelems", "constants"}
Nestings == {"main", "function", "module", "fragment"}
Forms(r) == CASE r = "locals" -> {"define", "var", "const", "block-reuse", "forin-hidden"}
              [] r = "params" -> {"plain", "variadic"}
              [] r = "callargs" -> {"plain", "spread"}
              [] OTHER -> {"literal"}

Predict(r, n) == IF n <= Capacity(r) THEN "ok" ELSE "error"

Tokens == <<"x", "y", "1", "\"s\"", ":=", "=", "(", ")", "{", "}", "[", "]", ",", ";", "func", "return", "if", "else", "for", "in",
            "try", "catch", "finally", "throw", "import", ".", "...", "+", "const", "var", "param", "global", "break", "?", ":", "\n", "'c'", "iota", "undefined", "!"  >>
NT == Len(Tokens)

VARIABLES c, ph
vars == <<c, ph>>
\* nesting depth of expressions / statements: no operand width limits it, the compiler's and the optimizer's own
\* bookkeeping (expression levels, recursion) must cope or refuse with an error
Depths == {8, 31, 32, 33, 63, 64, 65, 66, 127, 128, 129, 255, 256, 257, 1000, 3000}
NestKinds == {"parens", "unary", "not", "array", "map", "binary-right", "binary-left", "call", "func", "if", "index", "ternary", "try"}
Init == ph = 0 /\ (IF Part = "limits"
                   THEN \/ c \in {x \in [r : Resources, d : {-1, 0, 1}, nest : Nestings, form : UNION {Forms(r) : r \in Resources}] : x.form \in Forms(x.r)}
                        \/ c \in [r : {"depth"}, d : Depths, nest : {"main", "function"}, form : NestKinds]
                   ELSE c \in [n : 0..MaxLen, s : [1..MaxLen -> 1..NT]])
Judge == ph = 0 /\ ph' = 1 /\ UNCHANGED c
Next == Judge
Spec == Init /\ [][Next]_vars
Canon == Part = "soup" => \A i \in (c.n + 1)..MaxLen : c.s[i] = 1
\* the capacity table is monotone: one more than the capacity never fits
Monotone == (ph = 1 /\ Part = "limits" /\ c.r # "depth") => (Predict(c.r, Capacity(c.r)) = "ok" /\ Predict(c.r, Capacity(c.r) + 1) = "error")
Export == (ph = 1 /\ Canon) =>
  CSVWrite("%1$s", <<ToJson(IF Part = "limits"
                            THEN (IF c.r = "depth" THEN [k |-> "limit", r |-> c.r, n |-> c.d, nest |-> c.nest, form |-> c.form, pred |-> "any"]
                                  ELSE [k |-> "limit", r |-> c.r, n |-> Capacity(c.r) + c.d, nest |-> c.nest, form |-> c.form, pred |-> Predict(c.r, Capacity(c.r) + c.d)])
                            ELSE [k |-> "soup", s |-> [i \in 1..c.n |-> Tokens[c.s[i]]]])>>, IOEnv.OUT)
=============================================================================
