CONSTANTS
  StackSize = 5
  FrameSize = 4
SPECIFICATION Spec
INVARIANTS RecoverySafe Total
