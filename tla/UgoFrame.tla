------------------------------ MODULE UgoFrame ------------------------------
(* C18: the framing layer of the bytecode / object decoder
   (encoder/encoder.go: UnmarshalBinary, decodeBytecodeV2, DecodeObject,
   varintConv.readBytes) as a total function on byte strings.

   Decode(bs) classifies an input as
     "error"   - the framing itself is wrong: truncated, unknown tag or field,
                 negative or overlong size, size larger than the input, a
                 field holding an object of the wrong type;
     "unknown" - framing is right, the result depends on the payload codec
                 (value-or-error, not modelled here).
   and counts alloc, the bytes a decoder needs to allocate when it checks
   need(n) - "n bytes are available" - before allocating.  Invariants:
   Total (Decode is defined for every string, i.e. never a panic) and
   Proportional (alloc <= Len(input)).  TLC enumerates every byte string up to
   MaxLen over a tag / size alphabet behind a valid header of either version,
   and - for real encodings whose length the harness supplies - every
   truncation, every single-byte and a band of double-byte replacements. *)
EXTENDS Integers, Sequences, FiniteSets, TLC, Json, CSV, IOUtils

CONSTANTS MaxLen, Mode      \* Mode: "strings" | "corrupt"

Alpha == {0, 1, 2, 3, 7, 9, 10, 12, 14, 15, 255, 127, 128}
Small == {0, 3, 255, 128}

TagNoPayload == {0, 1, 2}
TagByteSize  == {3, 4, 5, 6}
TagVarSize   == 7..14
TagGob       == 255
TArray == 9  TInt == 3  TFunc == 12
VarBufLen == 11                    \* len(varintConv.buf)

\* Go's binary.Uvarint on a byte sequence: <<value, bytes used>>; used = 0: too small, < 0 overflow
RECURSIVE UvarintFrom(_,_,_,_)
UvarintFrom(bs, i, shift, acc) ==
  IF i > Len(bs) THEN <<0, 0>>
  ELSE IF i > 10 THEN <<0, -1>>
  ELSE LET b == bs[i] IN
       IF b < 128 THEN (IF i = 10 /\ b > 1 THEN <<0, -1>> ELSE <<acc + b * shift, i>>)
       ELSE UvarintFrom(bs, i + 1, shift * 128, acc + (b - 128) * shift)
Varint(bs) == LET u == UvarintFrom(bs, 1, 1, 0) IN
              IF u[2] < 1 THEN u
              ELSE <<IF u[1] % 2 = 0 THEN u[1] \div 2 ELSE 0 - ((u[1] + 1) \div 2), u[2]>>

Sub(bs, a, b) == IF a > b THEN <<>> ELSE SubSeq(bs, a, b)

\* DecodeObject at position p (1-based). Result: [r: "error"|"unknown", tag, next, alloc]
Obj(bs, p) ==
  IF p > Len(bs) THEN [r |-> "error", tag |-> -1, next |-> p, alloc |-> 0]
  ELSE LET t == bs[p] IN
  CASE t \in TagNoPayload -> [r |-> "unknown", tag |-> t, next |-> p + 1, alloc |-> 0]
    [] t \in TagByteSize ->
         IF p + 1 > Len(bs) THEN [r |-> "error", tag |-> t, next |-> p, alloc |-> 0]
         ELSE LET s == bs[p + 1] IN
              IF p + 1 + s > Len(bs) THEN [r |-> "error", tag |-> t, next |-> p, alloc |-> 0]
              ELSE [r |-> "unknown", tag |-> t, next |-> p + 2 + s, alloc |-> 2 + s]
    [] t \in TagVarSize ->
         IF p + 1 > Len(bs) THEN [r |-> "error", tag |-> t, next |-> p, alloc |-> 0]
         ELSE LET n == bs[p + 1] IN
              IF 1 + n > VarBufLen \/ p + 1 + n > Len(bs) THEN [r |-> "error", tag |-> t, next |-> p, alloc |-> 0]
              ELSE IF n = 0 THEN [r |-> "unknown", tag |-> t, next |-> p + 2, alloc |-> 2]
              ELSE LET v == Varint(Sub(bs, p + 2, p + 1 + n)) IN
                   IF v[2] < 1 \/ v[1] < 0 THEN [r |-> "error", tag |-> t, next |-> p, alloc |-> 0]
                   \* need(v) before allocating v bytes
                   ELSE IF p + 1 + n + v[1] > Len(bs) THEN [r |-> "error", tag |-> t, next |-> p, alloc |-> 0]
                   ELSE [r |-> "unknown", tag |-> t, next |-> p + 2 + n + v[1], alloc |-> 2 + n + v[1]]
    [] t = TagGob -> [r |-> "unknown", tag |-> t, next |-> Len(bs) + 1, alloc |-> Len(bs) - p]
    [] OTHER -> [r |-> "error", tag |-> t, next |-> p, alloc |-> 0]

\* decodeBytecodeV2 field loop from position p
RECURSIVE Fields(_,_,_)
Fields(bs, p, alloc) ==
  IF p > Len(bs) THEN [r |-> "unknown", alloc |-> alloc]       \* EOF: done (payloads decide)
  ELSE LET f == bs[p] IN
       IF f > 3 THEN [r |-> "error", alloc |-> alloc]
       ELSE LET o == Obj(bs, p + 1) IN
            IF o.r = "error" THEN [r |-> "error", alloc |-> alloc]
            ELSE IF f = 0 THEN (IF o.tag # TInt THEN [r |-> "error", alloc |-> alloc]
                                ELSE [r |-> "unknown", alloc |-> alloc + o.alloc])   \* size of the file set follows: payload level
            ELSE IF (f = 1 /\ o.tag # TFunc) \/ (f = 2 /\ o.tag # TArray) \/ (f = 3 /\ o.tag # TInt)
                 THEN [r |-> "error", alloc |-> alloc]
            ELSE IF o.tag = TagGob THEN [r |-> "unknown", alloc |-> alloc + o.alloc]
            ELSE Fields(bs, o.next, alloc + o.alloc)

Header(v) == <<0, 117, 71, 79, 0, v>>          \* 0x0075474F, version
Decode(bs) ==
  IF Len(bs) < 6 THEN [r |-> "error", alloc |-> 0]
  ELSE IF Sub(bs, 1, 4) # <<0, 117, 71, 79>> THEN [r |-> "error", alloc |-> 0]
  ELSE IF bs[5] # 0 \/ bs[6] \notin {1, 2} THEN [r |-> "error", alloc |-> 0]
  ELSE Fields(bs, 7, 0)

(* ------------------------------------------------------- state space *)
VARIABLES c, ph
vars == <<c, ph>>
RealLen == IF Mode = "corrupt" THEN atoi(IOEnv.REALLEN) ELSE 0

InitStrings == c \in [k : {"str"}, v : {1, 2}, n : 0..MaxLen, b : [1..MaxLen -> Alpha]]
InitCorrupt == \/ c \in [k : {"trunc"}, n : 0..RealLen]
               \/ c \in [k : {"rep1"}, p : 1..RealLen, x : Alpha]
               \/ c \in [k : {"rep2"}, p : 1..RealLen, d : 1..2, x : Small, y : Small]
               \* a length field (varint with a 1-byte prefix) inflated to 2^21 / 2^24: the decoder must notice that
               \* the input cannot hold that much before it allocates
               \/ c \in [k : {"inflate"}, p : 1..RealLen, x : {21, 24}]
               \* two neighbouring one-byte fields inflated together (a size and the count it is supposed to bound)
               \/ c \in [k : {"inflate2"}, p : 1..RealLen, x : {24}]
               \* an encoded object whose header promises 2^x bytes of payload and brings n: type tags 7..14 are the
               \* length-prefixed kinds (string, bytes, array, map, sync map, compiled function, function, builtin function)
               \/ c \in [k : {"hugeobj"}, p : 7..14, x : {20, 24, 28}, n : {0, 5}]
               \* a byte moved to a neighbouring value: names, lengths, type tags and indexes off by one
               \/ c \in [k : {"bump"}, p : 1..RealLen, x : {0, 2}]
Init == ph = 0 /\ (IF Mode = "strings" THEN InitStrings ELSE InitCorrupt)
Judge == ph = 0 /\ ph' = 1 /\ UNCHANGED c
Next == Judge
Spec == Init /\ [][Next]_vars

Body == [i \in 1..c.n |-> c.b[i]]
Input == Header(c.v) \o Body
\* canonical: only the first n symbols matter
Canon == c.k = "str" => \A i \in (c.n + 1)..MaxLen : c.b[i] = 0

Total == (ph = 1 /\ c.k = "str" /\ Canon) => Decode(Input).r \in {"error", "unknown"}
Proportional == (ph = 1 /\ c.k = "str" /\ Canon) => Decode(Input).alloc <= Len(Input)
Export == (ph = 1 /\ Canon) =>
  CSVWrite("%1$s", <<ToJson(IF c.k = "str" THEN [k |-> "str", bytes |-> Input, pred |-> Decode(Input).r]
                           ELSE c)>>, IOEnv.OUT)
=============================================================================
