CONSTANTS
  MaxLen = 1
  Part = "near"
SPECIFICATION Spec
INVARIANTS Export
