----------------------------- MODULE UgoAbortMC -----------------------------
(* model-checking constants for UgoAbort (tuples cannot be written in a .cfg) *)
EXTENDS UgoAbort
ScriptCb2  == <<"p", "cb", "p", "cb">>
ScriptCb1  == <<"p", "cb", "p">>
ScriptCb   == <<"cb">>
ScriptP    == <<"p", "p">>
Never == -1
=============================================================================
