------------------------------- MODULE UgoConst -------------------------------
(* C04 (constant kinds): one program per constant token x position of the
   constant (main script, nested function stored as a constant, imported source
   module, element of a literal, default of a builtin-module value).  The
   specification of encode/decode at this level is the identity on meaning:
   Run(Decode(Encode(bc))) = Run(bc), also after a second round.  TLC enumerates
   the cases; the harness compares the three runs bit-exactly. *)
EXTENDS Integers, Sequences, FiniteSets, TLC, Json, CSV, IOUtils

Tokens == {"0", "-1", "9223372036854775807", "-9223372036854775808", "18446744073709551615u", "0u",
           "1.5", "0.0", "-0.0", "1e308", "5e-324", "nan", "inf", "-inf",
           "'a'", "'\\x00'", "'\\U0010FFFF'", "'\\n'",
           "\"\"", "\"a\"", "\"\\xff\\xfe\"", "\"\\x00\"", "\"long\"",
           "true", "false", "undefined", "bytes", "emptybytes", "[]", "{}", "[1, \"a\", [2]]", "{a: {b: 1}}"}
Positions == {"main", "fn", "nestedfn", "module", "element", "mapvalue", "default-param", "closure-free", "builtin-module"}

VARIABLES c, ph
vars == <<c, ph>>
Init == ph = 0 /\ c \in [tok : Tokens, pos : Positions]
Judge == ph = 0 /\ ph' = 1 /\ UNCHANGED c
Next == Judge
Spec == Init /\ [][Next]_vars
Export == ph = 1 => CSVWrite("%1$s", <<ToJson(c)>>, IOEnv.OUT)
=============================================================================
