CONSTANTS
  Part = "near"
  MaxLen = 1
SPECIFICATION Spec
INVARIANTS Export
