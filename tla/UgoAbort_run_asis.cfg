CONSTANTS
  Variant = "asis"
  Mode = "run"
  RootScript <- ScriptCb2
  LoopTo = 1
  RootInf = FALSE
  ChildLen <- Never
  NAborts = 2
  Hist = FALSE
SPECIFICATION Spec
INVARIANTS TypeOK Mutex Bounded NoStuck AbortedResult
PROPERTIES AbortNotLost
