CONSTANTS
  MaxLen = 4
  Alphabet = "jumps"
SPECIFICATION Spec
INVARIANTS AlgorithmCorrect Monotone Export
