CONSTANTS
  MaxRuns = 2
SPECIFICATION Spec
INVARIANTS NoResidueRead Export
