CONSTANTS
  Fams = {"mod"}
SPECIFICATION Spec
INVARIANTS Modelled LoadOnce Export
