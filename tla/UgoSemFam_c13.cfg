CONSTANTS
  Fams = {"dis"}
SPECIFICATION Spec
INVARIANTS Modelled DisabledIrrelevant Export
