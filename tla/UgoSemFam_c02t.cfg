CONSTANTS
  Fams = {"closure", "call", "rec", "assign", "destr", "const", "loop", "epi", "epi3"}
SPECIFICATION Spec
INVARIANTS Modelled Export
