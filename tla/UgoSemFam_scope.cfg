CONSTANTS
  Fams = {"scope"}
SPECIFICATION Spec
INVARIANTS Modelled Export
