CONSTANTS
  NVM = 2
  CopyOnStore = TRUE
SPECIFICATION SpecH
INVARIANTS Isolation ModulePrivacy
