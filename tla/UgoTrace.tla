------------------------------- MODULE UgoTrace -------------------------------
(* C16: source positions of uncaught runtime errors.

   A program is a sequence of line records (one statement per line); the
   harness renders record i to text line i.  The expected stack trace is the
   line of the call statement in every function still active, outermost first,
   then the line of the failing statement - computed here from the call
   structure, not from the compiler.  TLC enumerates depth x failure kind x call
   style x number of prepended blank lines and checks on the model that the
   trace moves down by exactly k when k blank lines are prepended. *)
EXTENDS Integers, Sequences, FiniteSets, TLC, Json, CSV, IOUtils

CONSTANT MaxDepth

Kinds  == {"throw", "div", "builtin", "nargs", "index", "notcallable", "forin", "slice", "selector", "setindex", "setselector", "constuse", "constcall", "foldmixed", "foldcall", "foldneg", "foldnegint", "foldcompl"}
Styles == {"stmt", "assign", "retplus", "closure", "recur", "module", "method", "bare", "baremod", "inblock", "tryfin", "mutual", "recur2", "callback", "callback2", "callbacksel",
           "ifcond", "forcond", "ternary", "argument", "index"}
Blanks == {0, 1, 3}

L(k, a, b) == [k |-> k, a |-> a, b |-> b]
Blank == L("blank", "", "")
\* name of the function at depth i
Fn(i) == "f" \o ToString(i)

\* the call statement of style st calling function g
CallLine(st, g) == CASE st = "stmt" -> L("callstmt", g, "")
                     [] st = "assign" -> L("callassign", g, "")
                     [] st = "retplus" -> L("callretplus", g, "")
                     \* the call stands in the condition of if / for / ?:, in an argument list, in an index expression
                     [] st = "ifcond" -> L("callif", g, "")
                     [] st = "forcond" -> L("callfor", g, "")
                     [] st = "ternary" -> L("callternary", g, "")
                     [] st = "argument" -> L("callarg", g, "")
                     [] st = "index" -> L("callindex", g, "")
                     \* the function is called by the host (a Go function calling back through a pooled / unpooled Invoker):
                     \* the statement that called the Go function is the call statement of the function still active
                     [] st = "callback" -> L("callcb", g, "")
                     [] st = "callback2" -> L("callcb2", g, "")
                     \* the Go function is reached through a selector call (host.cbcall(f): another call instruction)
                     [] st = "callbacksel" -> L("callcbsel", g, "")
                     [] OTHER -> L("callstmt", g, "")

\* chain f1 -> f2 -> ... -> fd, fd fails; definitions first (innermost first), then the call in main
\* returns [lines, trace] with trace as indexes into lines (before blank lines are prepended)
Chain(d, kind, st) ==
  IF d = 0 THEN [lines |-> <<L("fail", kind, "")>>, trace |-> <<1>>, file |-> <<"main">>]
  ELSE LET defs == [j \in 1..(3 * d) |->
                      LET i == d - ((j - 1) \div 3)       \* function index: d first
                          r == (j - 1) % 3 IN
                      CASE r = 0 -> L("deffn", Fn(i), "")
                        [] r = 1 -> (IF i = d THEN L("fail", kind, "") ELSE CallLine(st, Fn(i + 1)))
                        [] r = 2 -> L("close", "", "")]
           main == CallLine(st, Fn(1))
           \* body line of function i is at 3 * (d - i) + 2
           tr == <<3 * d + 1>> \o [i \in 1..d |-> 3 * (d - i) + 2]
       IN [lines |-> Append(defs, main), trace |-> tr, file |-> [i \in 1..(d + 1) |-> "main"]]

\* direct recursion through one call site, n levels, not in tail position
Recur(n, kind) ==
  [lines |-> <<L("defrec", "r", "n"), L("ifzero", "n", ""), L("fail", kind, ""), L("close", "", ""),
               L("callrecassign", "r", "n"), L("retx", "", ""), L("close", "", ""), L("callrecmain", "r", ToString(n))>>,
   trace |-> <<8>> \o [i \in 1..n |-> 5] \o <<3>>, file |-> [i \in 1..(n + 2) |-> "main"]]

\* closure: mk() returns a function that fails; main calls the returned function
Closure(kind) ==
  [lines |-> <<L("deffn", "mk", ""), L("retfn", "", ""), L("fail", kind, ""), L("close", "", ""), L("close", "", ""),
               L("assigncall", "g", "mk"), L("callstmt", "g", "")>>,
   trace |-> <<7, 3>>, file |-> <<"main", "main">>]

\* the failing function lives in an imported source module (file "mod"); lines of the module are separate
Module(kind) ==
  [lines |-> <<L("import", "m", "mod"), L("callsel", "m", "f")>>,
   modlines |-> <<L("deffn", "f", ""), L("fail", kind, ""), L("close", "", ""), L("retmap", "f", "")>>,
   trace |-> <<2, 2>>, file |-> <<"main", "mod">>]

\* the failing statement sits inside nested blocks of its function (or of the main script)
InBlock(d, kind) ==
  IF d = 0 THEN [lines |-> <<L("openif", "", ""), L("openfor", "", ""), L("fail", kind, ""), L("close", "", ""), L("close", "", "")>>, trace |-> <<3>>, file |-> <<"main">>]
  ELSE [lines |-> <<L("deffn", "f1", ""), L("openif", "", ""), L("openfor", "", ""), L("fail", kind, ""), L("close", "", ""), L("close", "", ""), L("close", "", ""),
                    L("openfor", "", ""), L("callstmt", "f1", ""), L("close", "", "")>>, trace |-> <<9, 4>>, file |-> <<"main", "main">>]
\* the error leaves through finally blocks (which run) on its way out
TryFin(d, kind) ==
  IF d = 0 THEN [lines |-> <<L("opentry", "", ""), L("fail", kind, ""), L("finopen", "", ""), L("finstmt", "", ""), L("close", "", "")>>, trace |-> <<2>>, file |-> <<"main">>]
  ELSE [lines |-> <<L("deffn", "f1", ""), L("opentry", "", ""), L("fail", kind, ""), L("finopen", "", ""), L("finstmt", "", ""), L("close", "", ""), L("close", "", ""),
                    L("opentry", "", ""), L("callstmt", "f1", ""), L("finopen", "", ""), L("finstmt", "", ""), L("close", "", "")>>, trace |-> <<9, 3>>, file |-> <<"main", "main">>]
\* mutual recursion a -> b -> a ..., 2 * m levels, through two different call sites
Mutual(m, kind) ==
  [lines |-> <<L("vardecl", "b", ""), L("defrec", "a", "n"), L("ifzero", "n", ""), L("fail", kind, ""), L("close", "", ""), L("callrecassign", "b", "n"), L("retx", "", ""), L("close", "", ""),
               L("assignfn", "b", "n"), L("callrecassign", "a", "n"), L("retx", "", ""), L("close", "", ""), L("callrecmain", "a", ToString(2 * m))>>,
   trace |-> <<13>> \o [i \in 1..(2 * m) |-> IF i % 2 = 1 THEN 6 ELSE 10] \o <<4>>, file |-> [i \in 1..(2 * m + 2) |-> "main"]]

\* direct recursion through TWO call sites of the same function (odd levels call from one line, even levels from
\* another), 2 * m levels: consecutive frames of one function differ only in their call position
Recur2(m, kind) ==
  [lines |-> <<L("defrec", "r", "n"), L("ifzero", "n", ""), L("fail", kind, ""), L("close", "", ""),
               L("ifodd", "n", ""), L("callrecassign", "r", "n"), L("retx", "", ""), L("close", "", ""),
               L("callrecassign", "r", "n"), L("retx", "", ""), L("close", "", ""), L("callrecmain", "r", ToString(2 * m))>>,
   trace |-> <<12>> \o [i \in 1..(2 * m) |-> IF (2 * m - i + 1) % 2 = 1 THEN 6 ELSE 9] \o <<3>>, file |-> [i \in 1..(2 * m + 2) |-> "main"]]

\* the failing statement (or the call) is the very first token of its file: no header line is rendered
Bare == [lines |-> <<L("fail", "throw", "")>>, trace |-> <<1>>, file |-> <<"main">>, bare |-> TRUE]
BareMod == [lines |-> <<L("importstmt", "mod", "")>>, modlines |-> <<L("fail", "throw", "")>>, trace |-> <<1, 1>>, file |-> <<"main", "mod">>, bare |-> TRUE]
Prog(c) == CASE c.st = "bare" -> Bare [] c.st = "baremod" -> BareMod
             [] c.st = "recur" -> Recur(c.d, c.kind)
             [] c.st = "inblock" -> InBlock(c.d, c.kind)
             [] c.st = "tryfin" -> TryFin(c.d, c.kind)
             [] c.st = "mutual" -> Mutual(c.d, c.kind)
             [] c.st = "recur2" -> Recur2(c.d, c.kind)
             [] c.st = "closure" -> Closure(c.kind)
             [] c.st = "module" -> Module(c.kind)
             [] OTHER -> Chain(c.d, c.kind, c.st)

VARIABLES c, ph
vars == <<c, ph>>
Init == ph = 0 /\ c \in {x \in [d : 0..MaxDepth, kind : Kinds, st : Styles \ {"method"}, k : Blanks] :
                          /\ (x.st \in {"closure", "module"} => x.d = 1)
                          /\ (x.st \in {"bare", "baremod"} => (x.d = 0 /\ x.kind = "throw"))
                          /\ (x.st = "recur" => x.d >= 1)
                          /\ (x.st \in {"inblock", "tryfin"} => x.d <= 1)
                          /\ (x.st \in {"mutual", "recur2"} => x.d \in 1..2)}
Judge == ph = 0 /\ ph' = 1 /\ UNCHANGED c
Next == Judge
Spec == Init /\ [][Next]_vars

Shift(p, k) == [i \in 1..Len(p.trace) |-> IF p.file[i] = "main" THEN p.trace[i] + k ELSE p.trace[i]]
\* model-level statement of the shift law and of "positions inside the file"
ShiftLaw == ph = 1 => LET p == Prog(c) IN
   /\ \A i \in 1..Len(p.trace) : p.file[i] = "main" => (Shift(p, c.k)[i] >= 1 /\ Shift(p, c.k)[i] <= Len(p.lines) + c.k)
   /\ \A i \in 1..Len(p.trace) : Shift(p, c.k)[i] - Shift(p, 0)[i] = (IF p.file[i] = "main" THEN c.k ELSE 0)
Export == ph = 1 => LET p == Prog(c) IN
   CSVWrite("%1$s", <<ToJson([id |-> c, lines |-> [i \in 1..c.k |-> Blank] \o p.lines,
                              modlines |-> (IF c.st \in {"module", "baremod"} THEN p.modlines ELSE <<>>),
                              bare |-> (c.st \in {"bare", "baremod"}),
                              trace |-> Shift(p, c.k), file |-> p.file])>>, IOEnv.OUT)
=============================================================================
