CONSTANTS
  MaxLen = 5
  Part = "strbody"
SPECIFICATION Spec
INVARIANTS Export
