------------------------------- MODULE UgoCall -------------------------------
(* C19: the calling convention of builtin and standard-library functions.

   A callable has an arity class <<min, max>> (max = -1: variadic), taken from
   the documentation (UgoCallSigs).  Calling it with n arguments must
     - raise WrongNumberOfArgumentsError when n < min or (max >= 0 and n > max);
     - otherwise return a value or a uGO error (TypeError, IndexOutOfBounds ...);
     - never panic, whatever the argument values.
   TLC enumerates the argument tuples (indexes into a boundary-value pool of
   every type) and the decision table; the harness applies every tuple to every
   exported callable of the builtins and of the fmt, json, strings and time
   modules through a real VM. *)
EXTENDS Integers, Sequences, FiniteSets, TLC, Json, CSV, IOUtils, UgoCallSigs

CONSTANTS MaxN, Pool, Full3     \* Pool: size of the value pool; Full3: enumerate all triples

Filler == 4                      \* pool index of a small positive int
Differ(a, n) == Cardinality({i \in 1..n : a[i] # Filler})

Predict(min, max, n) == IF n < min \/ (max >= 0 /\ n > max) THEN "arity" ELSE "any"

\* the decision table is total and arity errors are exactly the out-of-range counts
Classes == {<<Sigs[i][2], Sigs[i][3]>> : i \in 1..Len(Sigs)}
TableOK == \A cl \in Classes : \A n \in 0..MaxN :
              (Predict(cl[1], cl[2], n) = "any") <=> (n >= cl[1] /\ (cl[2] < 0 \/ n <= cl[2]))

VARIABLES c, ph
vars == <<c, ph>>
Init == ph = 0 /\ c \in [n : 0..MaxN, a : [1..MaxN -> 1..Pool]]
Judge == ph = 0 /\ ph' = 1 /\ UNCHANGED c
Next == Judge
Spec == Init /\ [][Next]_vars
Canon == \A i \in (c.n + 1)..MaxN : c.a[i] = 1
\* (also: any first argument followed by one value repeated - a document with twice the same layout string, a
\*  subject with twice the same pattern; three different non-filler arguments only with Full3)
Repeated == c.n >= 3 /\ \A i \in 3..c.n : c.a[i] = c.a[2]
Wanted == Canon /\ (c.n <= 2 \/ (c.n = 3 /\ Full3) \/ Differ(c.a, c.n) <= 2 \/ Repeated)
Export == (ph = 1 /\ Wanted) =>
   CSVWrite("%1$s", <<ToJson([args |-> [i \in 1..c.n |-> c.a[i]],
                              table |-> [cl \in Classes |-> Predict(cl[1], cl[2], c.n)]])>>, IOEnv.OUT)
ASSUME TableOK
=============================================================================
