CONSTANTS
  Part = "soup"
  MaxLen = 3
SPECIFICATION Spec
INVARIANTS Export
