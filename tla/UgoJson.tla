------------------------------- MODULE UgoJson -------------------------------
(* C17: JSON as accepted / produced by the json module.

   Part 1 - acceptor.  RFC 8259 as a recursive-descent recogniser over a symbol
   alphabet; each symbol stands for a short byte string (see Sym in the
   harness): structural characters, quote, backslash, a letter, digits, minus,
   point, exponent, the literals true and null, a space.  TLC enumerates every
   symbol string up to MaxLen and exports it with the verdict.
   Part 2 - value trees for Marshal: leaves of every uGO type (including the
   ones without a JSON representation), arrays and maps up to depth 2, with
   Representable(v) = "encoding/json has a counterpart". *)
EXTENDS Integers, Sequences, FiniteSets, TLC, Json, CSV, IOUtils

CONSTANTS MaxLen, Part     \* Part: "accept" | "strbody" | "near" | "trees"; for "near" MaxLen is the number of edits (1 or 2)

Syms == <<"{", "}", "[", "]", ":", ",", "q", "b", "a", "1", "0", "-", ".", "e", "T", "N", " ", "U", "V", "W", "F", "X">>
NS == Len(Syms)
NSAcc == 20      \* the exhaustive part runs over the first 20 symbols
\* F = form feed (a control character: white space for Go's unicode.IsSpace but not for JSON, not allowed raw inside a string either),
\* X = byte 0xA0 (no-break space in Latin-1; not white space, inside a string an ordinary byte)
\* q = double quote, b = backslash, T = true, N = null,
\* U = ud800 (high surrogate escape body), V = udc00 (low surrogate), W = u0041: after a backslash they form \uXXXX escapes

Sy(s, i) == IF i <= Len(s) THEN Syms[s[i]] ELSE "$"      \* "$" = end of input

RECURSIVE SkipWs(_,_)
SkipWs(s, i) == IF Sy(s, i) = " " THEN SkipWs(s, i + 1) ELSE i

\* all parsers return the position after the construct, or 0 when it does not parse
RECURSIVE StrBody(_,_)
StrBody(s, i) ==        \* after the opening quote
  LET c == Sy(s, i) IN
  CASE c = "$" -> 0
    [] c = "q" -> i + 1
    [] c = "F" -> 0
    [] c = "b" -> (IF Sy(s, i + 1) \in {"q", "b", "T", "N", "U", "V", "W"} THEN StrBody(s, i + 2) ELSE 0)   \* \" \\ \t(rue) \n(ull) \uXXXX
    [] OTHER -> StrBody(s, i + 1)
RECURSIVE Digits(_,_)
Digits(s, i) == IF Sy(s, i) \in {"0", "1"} THEN Digits(s, i + 1) ELSE i
Number(s, i) ==
  LET i1 == IF Sy(s, i) = "-" THEN i + 1 ELSE i
      i2 == CASE Sy(s, i1) = "0" -> i1 + 1 [] Sy(s, i1) = "1" -> Digits(s, i1 + 1) [] OTHER -> 0
  IN IF i2 = 0 THEN 0
     ELSE LET i3 == IF Sy(s, i2) = "." THEN (IF Sy(s, i2 + 1) \in {"0", "1"} THEN Digits(s, i2 + 1) ELSE 0) ELSE i2 IN
          IF i3 = 0 THEN 0
          ELSE IF Sy(s, i3) = "e"
               THEN LET i4 == IF Sy(s, i3 + 1) = "-" THEN i3 + 2 ELSE i3 + 1 IN
                    IF Sy(s, i4) \in {"0", "1"} THEN Digits(s, i4) ELSE 0
               ELSE i3
RECURSIVE Value(_,_,_), Elems(_,_,_), Members(_,_,_)
Value(s, i0, d) ==
  LET i == SkipWs(s, i0)  c == Sy(s, i) IN
  IF d > (IF Part = "near" THEN 16 ELSE MaxLen + 1) THEN 0
  ELSE LET r == CASE c = "q" -> StrBody(s, i + 1)
                  [] c \in {"T", "N"} -> i + 1
                  [] c \in {"-", "0", "1"} -> Number(s, i)
                  [] c = "[" -> (LET j == SkipWs(s, i + 1) IN IF Sy(s, j) = "]" THEN j + 1 ELSE Elems(s, i + 1, d + 1))
                  [] c = "{" -> (LET j == SkipWs(s, i + 1) IN IF Sy(s, j) = "}" THEN j + 1 ELSE Members(s, i + 1, d + 1))
                  [] OTHER -> 0
       IN IF r = 0 THEN 0 ELSE SkipWs(s, r)
Elems(s, i, d) ==
  LET r == Value(s, i, d) IN
  IF r = 0 THEN 0
  ELSE IF Sy(s, r) = "," THEN Elems(s, r + 1, d)
  ELSE IF Sy(s, r) = "]" THEN r + 1 ELSE 0
Members(s, i0, d) ==
  LET i == SkipWs(s, i0) IN
  IF Sy(s, i) # "q" THEN 0
  ELSE LET k == StrBody(s, i + 1) IN
       IF k = 0 THEN 0
       ELSE LET c == SkipWs(s, k) IN
            IF Sy(s, c) # ":" THEN 0
            ELSE LET r == Value(s, c + 1, d) IN
                 IF r = 0 THEN 0
                 ELSE IF Sy(s, r) = "," THEN Members(s, r + 1, d)
                 ELSE IF Sy(s, r) = "}" THEN r + 1 ELSE 0
Accepts(s) == Value(s, 1, 0) = Len(s) + 1

(* ---- value trees ---- *)
Leaves == {"undefined", "true", "false", "i0", "im1", "imax", "u1", "umax", "f1_5", "f0", "fnan", "finf", "ca", "s_empty", "s_a",
           "s_html", "s_badutf8", "s_u2028", "b_empty", "b_ab", "function", "error", "a_empty", "m_empty",
           \* sizes beyond the encoder's internal buffers / streaming thresholds: 770 and 4097 bytes (not multiples of 3),
           \* a 6000-character string with characters to escape throughout, a 3000-element array, a 400-key map
           "b_770", "b_4097", "s_6000", "a_3000", "m_400",
           \* every control character, DEL, the characters with short escapes
           "s_ctrl"}
Unrepresentable == {"function", "error", "fnan", "finf"}
Trees1 == [k : {"leaf"}, v : Leaves]
Trees2 == Trees1 \cup [k : {"arr"}, a : Leaves, b : Leaves] \cup [k : {"arr1"}, a : Leaves]
          \cup [k : {"map"}, a : Leaves, b : Leaves] \cup [k : {"map1"}, a : Leaves] \cup [k : {"syncmap1"}, a : Leaves]
          \cup [k : {"nest"}, a : Leaves, w : {"arr-in-map", "map-in-arr", "arr-in-arr", "map-in-map"}]
LeavesOf(t) == CASE t.k = "leaf" -> {t.v} [] t.k \in {"arr", "map"} -> {t.a, t.b} [] OTHER -> {t.a}
Representable(t) == LeavesOf(t) \cap Unrepresentable = {}

(* ---- near-valid documents ----
   Valid skeleton documents covering every construct (members, elements, nesting,
   white space, numbers with fraction and exponent, escapes), each changed by one
   or two single-symbol edits: insertion of any symbol at any position, deletion,
   replacement.  This is where hand-written scanners go wrong (a trailing comma,
   a missing colon, a second point), at lengths the exhaustive part cannot reach. *)
Skel == << <<"{", "q", "q", ":", "1", "}">>,
           <<"{", "q", "a", "q", ":", "1", ",", "q", "q", ":", "T", "}">>,
           <<"[", "1", ",", "0", "]">>,
           <<"[", "{", "q", "q", ":", "N", "}", ",", "[", "1", "]", "]">>,
           <<"{", "q", "q", ":", "{", "q", "q", ":", "[", "]", "}", "}">>,
           <<"{", "q", "q", ":", "[", "1", ",", "{", "}", "]", "}">>,
           <<"-", "1", ".", "0", "e", "-", "1">>,
           <<"q", "b", "W", "a", "b", "q", "q">>,
           <<" ", "{", " ", "q", "q", " ", ":", " ", "1", " ", ",", " ", "q", "a", "q", " ", ":", " ", "0", " ", "}", " ">>,
           <<"[", " ", "]">>,
           <<"[", "q", "q", ",", "q", "a", "q", "]">>,
           <<"[", "[", "[", "T", "]", "]", "]">>,
           <<"T">>, <<"0">> >>
SymIdx(x) == CHOOSE i \in 1..NS : Syms[i] = x
SkelDoc(d) == [i \in 1..Len(Skel[d]) |-> SymIdx(Skel[d][i])]
MaxSkel == 22
\* an edit: t = 0 none, 1 insert y after position p, 2 delete position p, 3 replace position p by y
EditOK(s, e) == CASE e.t = 0 -> e.p = 0 /\ e.y = 1
                  [] e.t = 1 -> e.p \in 0..Len(s)
                  [] e.t = 2 -> e.p \in 1..Len(s) /\ e.y = 1
                  [] OTHER   -> e.p \in 1..Len(s) /\ e.y # s[e.p]
Edit(s, e) == CASE e.t = 0 -> s
                [] e.t = 1 -> SubSeq(s, 1, e.p) \o <<e.y>> \o SubSeq(s, e.p + 1, Len(s))
                [] e.t = 2 -> SubSeq(s, 1, e.p - 1) \o SubSeq(s, e.p + 1, Len(s))
                [] OTHER   -> [s EXCEPT ![e.p] = e.y]
EditSet == [t : 0..3, p : 0..(MaxSkel + 1), y : 1..NS]
NoEdit == [t |-> 0, p |-> 0, y |-> 1]

VARIABLES c, ph
vars == <<c, ph>>
\* string bodies: longer strings over the symbols that matter inside a string (escapes, surrogates)
StrSyms == {8, 9, 10, 15, 18, 19, 20}     \* b a 1 T U V W
Init == ph = 0 /\ (CASE Part = "accept" -> c \in [n : 0..MaxLen, s : [1..MaxLen -> 1..NS]]
                      [] Part = "strbody" -> c \in [n : 0..MaxLen, s : [1..MaxLen -> StrSyms]]
                      [] Part = "near" -> c \in [d : 1..Len(Skel), e1 : EditSet, e2 : {NoEdit}] /\ EditOK(SkelDoc(c.d), c.e1)
                      [] OTHER -> c \in Trees2)
Judge == ph = 0 /\ ph' = 1 /\ UNCHANGED c
\* the second edit of a near-valid document is a step (TLC computes initial states single-threaded)
Edit2 == /\ ph = 0 /\ Part = "near" /\ MaxLen >= 2 /\ c.e1.t # 0
         /\ \E e \in EditSet : e.t # 0 /\ EditOK(Edit(SkelDoc(c.d), c.e1), e) /\ c' = [c EXCEPT !.e2 = e]
         /\ ph' = 1
Next == Judge \/ Edit2
Spec == Init /\ [][Next]_vars
Str == [i \in 1..c.n |-> c.s[i]]
Canon == Part \in {"accept", "strbody"} => \A i \in (c.n + 1)..MaxLen : c.s[i] = (IF Part = "accept" THEN 1 ELSE 8)
\* a string body is wrapped in quotes
Doc == IF Part = "near" THEN Edit(Edit(SkelDoc(c.d), c.e1), c.e2) ELSE
       IF Part = "strbody" THEN <<7>> \o [i \in 1..c.n |-> c.s[i]] \o <<7>> ELSE [i \in 1..c.n |-> c.s[i]]
\* sanity of the grammar itself: a document never ends inside a string or after a comma
Sane == (ph = 1 /\ Part = "accept" /\ Canon /\ Accepts(Str)) => (c.n > 0 /\ Syms[c.s[c.n]] \notin {",", ":", "b", "-", ".", "e", "{", "["})
\* the skeletons are valid documents, or the catalogue is wrong
ASSUME SkelValid == Part = "near" => \A d \in 1..Len(Skel) : Accepts(SkelDoc(d))
Export == (ph = 1 /\ Canon) =>
   CSVWrite("%1$s", <<ToJson(IF Part \in {"accept", "strbody", "near"} THEN [k |-> "doc", s |-> [i \in 1..Len(Doc) |-> Syms[Doc[i]]], accept |-> Accepts(Doc)]
                            ELSE [k |-> "tree", t |-> c, representable |-> Representable(c)])>>, IOEnv.OUT)
=============================================================================
