CONSTANTS
  Part = "bytesoup"
  MaxLen = 4
SPECIFICATION Spec
INVARIANTS Export
