SPECIFICATION Spec
INVARIANT Report
POSTCONDITION TraceAccepted
CHECK_DEADLOCK FALSE
