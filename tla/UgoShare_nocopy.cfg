CONSTANTS
  NVM = 2
  CopyOnStore = FALSE
SPECIFICATION Spec
INVARIANTS Isolation ModulePrivacy
