CONSTANTS
  MaxLen = 5
  Mode = "strings"
SPECIFICATION Spec
INVARIANTS Total Proportional Export
