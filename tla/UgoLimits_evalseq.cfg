CONSTANTS
  Part = "evalseq"
  MaxLen = 3
SPECIFICATION Spec
INVARIANTS Export
