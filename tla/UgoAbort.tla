------------------------------ MODULE UgoAbort ------------------------------
(* C09: Abort / context cancellation against Run, Invoker and Eval.run.

   One action per hook-to-hook segment of the code (sync points of build tag
   verif): a goroutine parked at gate <<point, vm>> is released and runs until
   it parks at its next gate.  A TLC behaviour is therefore exactly a total
   order of gate releases, which the harness forces on real goroutines.

   vm 0 is the root VM, vm c > 0 the child VM of the c-th callback (Invoker
   Acquire / Invoke / Release executed by a Go function called from the root
   script; the child runs a script function).

   Code modelled (vm.go, eval.go):
     Run:     lock vm.mu; [run.enter] err=nil; abort.Store(0) [run.reset]
              child re-reads the root's flag (repair) [run.rechecked]
              for abort.Load()==0 { [step] execute one instruction }  [run.exit]
     Abort:   [abort.begin] part1 [abort.mid] part2 [abort.end]
              fixed: part1 = abort.Store(1), part2 = pool.abort()
              asis : part1 = pool.abort(),   part2 = abort.Store(1)
     pool.abort: lock pool.mu; for each registered child { [pool.abort.child] child.Abort() }
     Invoker: _acquire: lock pool.mu; register [pool.acquired]; unlock
              Invoke:  [invoke.check] if child.Aborted() return ErrVMAborted
                       [invoke.checked] child.Run
              _release: lock pool.mu; delete; unlock [pool.released]
     Eval.run: select ctx.Done -> [eval.abort.early] Abort; return ctx.Err
               default -> [eval.spawn] go { [eval.go] Run }; select ctx.Done ->
               [eval.abort] Abort; wait for the run (repair: repeat Abort
               until the run has returned) *)
EXTENDS Integers, Sequences, FiniteSets, TLC, Json, CSV, IOUtils

CONSTANTS Variant,     \* "fixed" | "asis"
          Mode,        \* "run": Runner + Aborter goroutine;  "eval": Eval.run + canceller
          RootScript,  \* sequence over {"p", "cb"}; a final "ret" is implicit
          RootInf,     \* TRUE: the root script never returns: after the last instruction it continues at LoopTo
          LoopTo,
          ChildLen,    \* "p" instructions of the child function before it returns; -1: never returns
          NAborts,     \* Abort() calls (run mode) / maximal number of Abort retries (eval mode)
          Hist         \* TRUE: record the schedule (every behaviour becomes a distinct state)

NCb  == Cardinality({i \in 1..Len(RootScript) : RootScript[i] = "cb"})
Kids == 1..(IF RootInf THEN 2 ELSE NCb)
VMs  == {0} \cup Kids
CkCap == IF ChildLen < 0 THEN 2 ELSE ChildLen + 1

VARIABLES rpc,      \* runner goroutine: gate <<point, vm>> it is parked at
          apc,      \* goroutine inside Abort(): gate it is parked at
          mpc,      \* eval mode: Eval.run goroutine
          flag,     \* abort flag per VM
          reg,      \* children registered in the root pool
          lock,     \* root pool.mu: "free" | "R" | "A"
          rk, ck,   \* next instruction of root / current child
          ncb,      \* callbacks started so far (= id of the current child)
          res,      \* result of the root Run: "none" | "ok" | "aborted" | "cberr"
          cres,     \* result of the current child
          todo, aret, aleft, \* pool walk: children left, gate to return to; aborts left
          cancelled,
          h,        \* history for the properties
          sched     \* schedule so far (only when Hist)
vars == <<rpc, apc, mpc, flag, reg, lock, rk, ck, ncb, res, cres, todo, aret, aleft, cancelled, h, sched>>

G(p, v) == <<p, v>>
Idle == G("idle", 0)
Done == G("done", 0)

AG == IF Mode = "eval" THEN "M" ELSE "A"   \* goroutine executing Abort()

\* schedule entry: goroutine released, the gate it left, and where every goroutine is parked afterwards
Note(g, rel, arr) == sched' = IF Hist THEN Append(sched, [g |-> g, rel |-> rel, r |-> rpc', a |-> apc', m |-> mpc']) ELSE sched

Init ==
  /\ rpc = IF Mode = "eval" THEN Idle ELSE G("init", 0)
  /\ apc = Idle
  /\ mpc = IF Mode = "eval" THEN G("init", 0) ELSE Idle
  /\ flag = [v \in VMs |-> 0]
  /\ reg = {} /\ lock = "free"
  /\ rk = 1 /\ ck = 0 /\ ncb = 0
  /\ res = "none" /\ cres = "none"
  /\ todo = {} /\ aret = "" /\ aleft = NAborts
  /\ cancelled = FALSE
  /\ h = [reset |-> FALSE,      \* root passed run.reset
          after |-> FALSE,      \* the Abort in progress began after that
          done  |-> FALSE,      \* an Abort that began after the reset has returned
          post  |-> [v \in VMs |-> 0]]  \* instructions executed since then
  /\ sched = <<>>

(* ------------------------------------------------------------ runner *)
RootInstr == IF rk > Len(RootScript) THEN "ret" ELSE RootScript[rk]
NextRk == IF RootInf /\ rk = Len(RootScript) THEN LoopTo ELSE rk + 1
ChildInstr == IF ChildLen >= 0 /\ ck >= ChildLen THEN "ret" ELSE "p"

Count(v) == h' = IF h.done /\ h.post[v] < 3 THEN [h EXCEPT !.post[v] = @ + 1] ELSE h

\* runner finished: an Eval.run goroutine blocked on the run is woken
RunnerDone(r) ==
  /\ rpc' = Done
  /\ res' = r
  /\ mpc' = IF Mode = "eval" /\ mpc[1] \in {"wait1", "wait2"} THEN Done ELSE mpc

RUnch == UNCHANGED <<apc, todo, aret, aleft, cancelled>>

Runner ==
  LET p == rpc[1]  v == rpc[2] IN
  \/ /\ p = "init" /\ rpc' = G("run.enter", 0)
     /\ UNCHANGED <<mpc, flag, reg, lock, rk, ck, ncb, res, cres, h>> /\ RUnch
     /\ Note("R", rpc, <<>>)
  \/ /\ p = "eval.go" /\ rpc' = G("run.enter", 0)
     /\ UNCHANGED <<mpc, flag, reg, lock, rk, ck, ncb, res, cres, h>> /\ RUnch
     /\ Note("R", rpc, <<>>)
  \/ /\ p = "run.enter" /\ rpc' = G("run.reset", v)
     /\ flag' = [flag EXCEPT ![v] = 0]
     /\ h' = IF v = 0 THEN [h EXCEPT !.reset = TRUE] ELSE h
     /\ UNCHANGED <<mpc, reg, lock, rk, ck, ncb, res, cres>> /\ RUnch
     /\ Note("R", rpc, <<>>)
  \/ /\ p = "run.reset" /\ rpc' = G("run.rechecked", v)
     /\ flag' = IF Variant = "fixed" /\ v # 0 /\ flag[0] = 1 THEN [flag EXCEPT ![v] = 1] ELSE flag
     /\ UNCHANGED <<mpc, reg, lock, rk, ck, ncb, res, cres, h>> /\ RUnch
     /\ Note("R", rpc, <<>>)
  \/ /\ p = "run.rechecked"          \* first evaluation of the loop condition
     /\ IF flag[v] = 1
        THEN IF v = 0 THEN /\ rpc' = G("run.exit", 0) /\ res' = "aborted" /\ UNCHANGED cres
                      ELSE /\ rpc' = G("run.exit", v) /\ cres' = "aborted" /\ UNCHANGED res
        ELSE rpc' = G("step", v) /\ UNCHANGED <<res, cres>>
     /\ UNCHANGED <<mpc, flag, reg, lock, rk, ck, ncb, h>> /\ RUnch
     /\ Note("R", rpc, <<>>)
  \/ /\ p = "step" /\ v = 0 /\ RootInstr = "p"
     /\ rk' = NextRk /\ Count(0)
     /\ IF flag[0] = 1 THEN rpc' = G("run.exit", 0) /\ res' = "aborted"
                       ELSE rpc' = G("step", 0) /\ UNCHANGED res
     /\ UNCHANGED <<mpc, flag, reg, lock, ck, ncb, cres>> /\ RUnch
     /\ Note("R", rpc, <<>>)
  \/ /\ p = "step" /\ v = 0 /\ RootInstr = "ret"
     /\ Count(0) /\ rpc' = G("run.exit", 0) /\ res' = "ok"
     /\ UNCHANGED <<mpc, flag, reg, lock, rk, ck, ncb, cres>> /\ RUnch
     /\ Note("R", rpc, <<>>)
  \/ /\ p = "step" /\ v = 0 /\ RootInstr = "cb" /\ lock = "free"     \* CALL of the Go callback: Acquire
     /\ Count(0)
     /\ LET c == IF RootInf THEN 1 + (ncb % 2) ELSE ncb + 1 IN
        /\ ncb' = (IF RootInf THEN (ncb + 1) % 2 ELSE ncb + 1) /\ reg' = reg \cup {c} /\ lock' = "R" /\ ck' = 0 /\ cres' = "none"
        /\ flag' = [flag EXCEPT ![c] = 0]      \* a VM taken from the sync pool is zeroed
        /\ rpc' = G("pool.acquired", c)
     /\ UNCHANGED <<mpc, rk, res>> /\ RUnch
     /\ Note("R", rpc, <<>>)
  \/ /\ p = "pool.acquired" /\ lock' = "free" /\ rpc' = G("invoke.check", v)
     /\ UNCHANGED <<mpc, flag, reg, rk, ck, ncb, res, cres, h>> /\ RUnch
     /\ Note("R", rpc, <<>>)
  \/ /\ p = "invoke.check"
     /\ IF flag[v] = 1
        THEN /\ lock = "free" /\ reg' = reg \ {v} /\ cres' = "invaborted" /\ rpc' = G("pool.released", v)
        ELSE /\ rpc' = G("invoke.checked", v) /\ UNCHANGED <<reg, cres>>
     /\ UNCHANGED <<mpc, flag, lock, rk, ck, ncb, res, h>> /\ RUnch
     /\ Note("R", rpc, <<>>)
  \/ /\ p = "invoke.checked" /\ rpc' = G("run.enter", v)
     /\ UNCHANGED <<mpc, flag, reg, lock, rk, ck, ncb, res, cres, h>> /\ RUnch
     /\ Note("R", rpc, <<>>)
  \/ /\ p = "step" /\ v # 0 /\ ChildInstr = "p"
     /\ ck' = IF ck < CkCap THEN ck + 1 ELSE ck
     /\ Count(v)
     /\ IF flag[v] = 1 THEN rpc' = G("run.exit", v) /\ cres' = "aborted"
                       ELSE rpc' = G("step", v) /\ UNCHANGED cres
     /\ UNCHANGED <<mpc, flag, reg, lock, rk, ncb, res>> /\ RUnch
     /\ Note("R", rpc, <<>>)
  \/ /\ p = "step" /\ v # 0 /\ ChildInstr = "ret"
     /\ Count(v) /\ rpc' = G("run.exit", v) /\ cres' = "ok"
     /\ UNCHANGED <<mpc, flag, reg, lock, rk, ck, ncb, res>> /\ RUnch
     /\ Note("R", rpc, <<>>)
  \/ /\ p = "run.exit" /\ v # 0 /\ lock = "free"      \* child Run returns; Release
     /\ reg' = reg \ {v} /\ rpc' = G("pool.released", v)
     /\ UNCHANGED <<mpc, flag, lock, rk, ck, ncb, res, cres, h>> /\ RUnch
     /\ Note("R", rpc, <<>>)
  \/ /\ p = "pool.released"      \* the callback returns to the root VM
     /\ IF cres # "ok"
        THEN rpc' = G("run.exit", 0) /\ res' = "cberr" /\ UNCHANGED rk
        ELSE /\ rk' = NextRk
             /\ IF flag[0] = 1 THEN rpc' = G("run.exit", 0) /\ res' = "aborted"
                               ELSE rpc' = G("step", 0) /\ UNCHANGED res
     /\ UNCHANGED <<mpc, flag, reg, lock, ck, ncb, cres, h>> /\ RUnch
     /\ Note("R", rpc, <<>>)
  \/ /\ p = "run.exit" /\ v = 0
     /\ RunnerDone(res)
     /\ UNCHANGED <<flag, reg, lock, rk, ck, ncb, cres, h>> /\ RUnch
     /\ Note("R", rpc, IF mpc' # mpc THEN <<mpc'>> ELSE <<>>)

(* --------------------------------------------------------- Abort() *)
Part(v, first) == IF (Variant = "fixed") = first THEN "store" ELSE "walk"

AUnch == UNCHANGED <<rpc, rk, ck, ncb, res, cres, cancelled, reg>>

\* perform one part of Abort on vm v and park at gate next
DoPart(part, v, next) ==
  \/ /\ part = "store" /\ flag' = [flag EXCEPT ![v] = 1] /\ apc' = G(next, v)
     /\ UNCHANGED <<lock, todo, aret>>
  \/ /\ part = "walk" /\ v # 0 /\ apc' = G(next, v)       \* a child's own pool is empty
     /\ UNCHANGED <<flag, lock, todo, aret>>
  \/ /\ part = "walk" /\ v = 0 /\ lock = "free" /\ reg = {} /\ apc' = G(next, 0)
     /\ UNCHANGED <<flag, lock, todo, aret>>
  \/ /\ part = "walk" /\ v = 0 /\ lock = "free" /\ reg # {}
     /\ \E c \in reg : /\ todo' = reg \ {c} /\ apc' = G("pool.abort.child", c)
     /\ lock' = "A" /\ aret' = next
     /\ UNCHANGED flag

Aborter ==
  LET p == apc[1]  v == apc[2] IN
  \/ /\ Mode = "run" /\ p = "idle" /\ aleft > 0 /\ rpc[1] # "init"
     /\ apc' = G("abort.begin", 0) /\ aleft' = aleft - 1
     /\ h' = [h EXCEPT !.after = h.reset]
     /\ UNCHANGED <<mpc, flag, lock, todo, aret>> /\ AUnch
     /\ Note(AG, apc, <<>>)
  \/ /\ p = "abort.begin" /\ DoPart(Part(v, TRUE), v, "abort.mid")
     /\ UNCHANGED <<mpc, aleft, h>> /\ AUnch /\ Note(AG, apc, <<>>)
  \/ /\ p = "abort.mid" /\ DoPart(Part(v, FALSE), v, "abort.end")
     /\ UNCHANGED <<mpc, aleft, h>> /\ AUnch /\ Note(AG, apc, <<>>)
  \/ /\ p = "pool.abort.child" /\ apc' = G("abort.begin", v)
     /\ UNCHANGED <<mpc, flag, lock, todo, aret, aleft, h>> /\ AUnch /\ Note(AG, apc, <<>>)
  \/ /\ p = "abort.end" /\ v # 0
     /\ IF todo # {}
        THEN \E c \in todo : todo' = todo \ {c} /\ apc' = G("pool.abort.child", c) /\ UNCHANGED <<lock, aret>>
        ELSE lock' = "free" /\ apc' = G(aret, 0) /\ UNCHANGED <<todo, aret>>
     /\ UNCHANGED <<mpc, flag, aleft, h>> /\ AUnch /\ Note(AG, apc, <<>>)
  \/ /\ p = "abort.end" /\ v = 0        \* Abort() returns
     /\ apc' = Idle
     /\ h' = IF h.after THEN [h EXCEPT !.done = TRUE] ELSE h
     /\ mpc' = CASE Mode = "eval" /\ mpc = G("inabort", 0) -> Done     \* early cancellation: return ctx.Err()
                 [] Mode = "eval" /\ mpc = G("inabort", 1) -> (IF rpc = Done THEN Done ELSE G("wait2", 0))
                 [] OTHER -> mpc
     /\ UNCHANGED <<flag, lock, todo, aret, aleft>> /\ AUnch /\ Note(AG, apc, <<>>)

(* --------------------------------------------------------- Eval.run *)
MUnch == UNCHANGED <<flag, reg, lock, rk, ck, ncb, res, cres, todo, aret>>

EvalMain ==
  LET p == mpc[1] IN
  \/ /\ Mode = "eval" /\ p = "init"
     /\ mpc' = IF cancelled THEN G("eval.abort.early", 0) ELSE G("eval.spawn", 0)
     /\ UNCHANGED <<rpc, apc, aleft, cancelled, h>> /\ MUnch /\ Note("M", mpc, <<mpc'>>)
  \/ /\ p = "eval.abort.early"
     /\ apc' = G("abort.begin", 0) /\ mpc' = G("inabort", 0)
     /\ h' = [h EXCEPT !.after = h.reset]
     /\ UNCHANGED <<rpc, aleft, cancelled>> /\ MUnch /\ Note("M", mpc, <<apc'>>)
  \/ /\ p = "eval.spawn"
     /\ rpc' = G("eval.go", 0)
     /\ mpc' = IF cancelled THEN G("eval.abort", 0) ELSE G("wait1", 0)
     /\ UNCHANGED <<apc, aleft, cancelled, h>> /\ MUnch
     /\ Note("M", mpc, IF cancelled THEN <<rpc', mpc'>> ELSE <<rpc'>>)
  \/ /\ p = "eval.abort"
     /\ apc' = G("abort.begin", 0) /\ mpc' = G("inabort", 1)
     /\ h' = [h EXCEPT !.after = h.reset]
     /\ UNCHANGED <<rpc, aleft, cancelled>> /\ MUnch /\ Note("M", mpc, <<apc'>>)
  \/ /\ p = "wait2" /\ Variant = "fixed" /\ aleft > 0 /\ rpc # Done    \* repair: the ticker fires, Abort again
     /\ apc' = G("abort.begin", 0) /\ mpc' = G("inabort", 1)
     /\ aleft' = IF Hist THEN aleft - 1 ELSE aleft     \* the ticker is unbounded; bounded only when recording
     /\ h' = [h EXCEPT !.after = h.reset]
     /\ UNCHANGED <<rpc, cancelled>> /\ MUnch /\ Note("T", mpc, <<apc'>>)

Cancel ==
  /\ Mode = "eval" /\ ~cancelled /\ cancelled' = TRUE
  /\ mpc' = IF mpc = G("wait1", 0) THEN G("eval.abort", 0) ELSE mpc
  /\ UNCHANGED <<rpc, apc, aleft, h>> /\ MUnch
  /\ Note("C", G("cancel", 0), IF mpc' # mpc THEN <<mpc'>> ELSE <<>>)

Next == Runner \/ Aborter \/ EvalMain \/ Cancel
\* the runner can be disabled while the aborter holds pool.mu (a mutex is starvation free: strong fairness)
Fair == SF_vars(Runner) /\ SF_vars(Aborter) /\ WF_vars(EvalMain)
Spec == Init /\ [][Next]_vars /\ Fair

(* ------------------------------------------------------ properties *)
TypeOK == /\ lock \in {"free", "R", "A"} /\ reg \subseteq Kids /\ aleft \in 0..NAborts
\* pool.mu is a mutex
Mutex == ~(rpc[1] = "pool.acquired" /\ apc[1] \in {"pool.abort.child"} )
\* bounded reaction: after an Abort that began after the run's reset has
\* returned, every VM of the tree executes at most one further instruction
Bounded == \A v \in VMs : h.post[v] <= 1
\* safety form of "never lost": such an Abort has returned, nobody is inside
\* Abort, yet a VM keeps looping with a clear flag
Stuck == /\ h.done /\ apc = Idle /\ rpc[1] = "step" /\ flag[rpc[2]] = 0
         /\ (Mode = "eval" => Variant # "fixed")
NoStuck == ~Stuck
\* an aborted run reports it
AbortedResult == (rpc = Done /\ h.done) => res \in {"aborted", "cberr", "ok"}
\* liveness
AbortNotLost == h.done ~> (rpc = Done)
EvalReturns == (Mode = "eval" /\ cancelled /\ mpc # G("init", 0)) ~> (mpc = Done)

\* Replay export (Hist = TRUE, VIEW View): every state is expanded once, and
\* every transition TLC explores writes the schedule that reaches it - a set of
\* behaviours covering every edge of the state graph.
View == <<rpc, apc, mpc, flag, reg, lock, rk, ck, ncb, res, cres, todo, aret, aleft, cancelled, h>>
NextH == /\ Next
         /\ CSVWrite("%1$s", <<ToJson([sched |-> sched', res |-> res', hdone |-> h'.done, cancelled |-> cancelled',
                                      mdone |-> (mpc' = Done), rdone |-> (rpc' = Done)])>>, IOEnv.OUT)
SpecH == Init /\ [][NextH]_vars
=============================================================================
