------------------------------- MODULE UgoLife -------------------------------
(* C07: a run's outcome depends only on bytecode, globals and arguments.

   One VM as a set of residue-carrying components.  An operation is modelled by
   the components it may leave dirty and the components it (re)initialises
   before anything reads them:
     Run(script, termination)  dirties everything a script can touch; how it
                               terminates decides what is left behind;
     the prologue of the next Run, Clear and SetBytecode clean a fixed set;
     a call sets up its frame completely before executing the callee.
   Invariant NoResidueRead: the probe run reads no component that is still
   dirty.  TLC explores every history (scripts x termination kinds)* ; op ; probe
   up to the bound and exports it for the replay on one real VM. *)
EXTENDS Integers, Sequences, FiniteSets, TLC, Json, CSV, IOUtils

CONSTANTS MaxRuns

Components == {"err", "abort", "sp", "frameIndex", "ip", "curFrame",
               "frame0.fn", "frame0.freeVars", "frame0.handlers", "frame0.discardRet",
               "framesAbove.fn", "framesAbove.freeVars", "framesAbove.handlers", "framesAbove.discardRet", "framesAbove.bp",
               "stack.locals", "stack.above", "modulesCache", "globals", "pool.vms"}

\* scripts of the harness library: number -> how the run ends
Scripts == 1..24
Term(s) == CASE s = 1 -> "return" [] s = 2 -> "error-through-finally" [] s = 3 -> "recovered-panic" [] s = 4 -> "stack-overflow"
             [] s = 5 -> "frame-overflow" [] s = 6 -> "abort" [] s = 7 -> "tailstmt-throw" [] s = 8 -> "module-state"
             [] s = 9 -> "closures" [] s = 10 -> "error-in-finally" [] s = 11 -> "callback-error" [] s = 12 -> "deep-return"
             [] s = 15 -> "abort-in-callback"
             [] s \in 23..24 -> "tailstmt-throw"   \* the throw comes from a callee one (23) or two (24) frames above the frame that discards its result: the frame Run clears on the way out is not the dirty one
             [] s = 22 -> "return"                  \* catches runtime errors raised by the VM and derives new errors from them (e.New): the builtin error values are shared by the whole process and read by probe 15
             [] s = 20 -> "return"                  \* run with five arguments
             [] s = 21 -> "return"                  \* run with nil globals: stores into the globals the VM provides for that run
             [] s \in 16..19 -> "module-state"     \* object modules (bytes, sync-map, array) and nested values of a builtin module, changed in place
             [] s = 13 -> "abort" [] s = 14 -> "recovered-panic"      \* both while main is inside a try statement and a callee is running
Ops == {"none-same-bytecode", "clear", "setbytecode", "clear+setbytecode"}
Probes == 1..16

\* what a run may leave dirty (everything it touched stays as it was when the run stopped)
DirtyAfter(t) ==
  LET always == {"sp", "frameIndex", "ip", "curFrame", "stack.locals", "stack.above", "globals", "frame0.fn", "frame0.freeVars",
                 "framesAbove.fn", "framesAbove.freeVars", "framesAbove.bp"} IN
  always \cup (CASE t \in {"return", "closures", "deep-return"} -> {}
                 [] t = "module-state" -> {"modulesCache"}
                 [] t = "abort" -> {"abort", "err", "frame0.handlers", "framesAbove.handlers"}
                 \* the pooled child VM goes back to the process-wide pool: _release zeroes it (pool.vms of the root is emptied)
                 [] t = "abort-in-callback" -> {"abort", "err", "frame0.handlers", "framesAbove.handlers", "pool.vms"}
                 [] t = "tailstmt-throw" -> {"err", "framesAbove.discardRet", "frame0.discardRet"}
                 [] t = "callback-error" -> {"err", "pool.vms", "framesAbove.handlers"}
                 [] OTHER -> {"err", "frame0.handlers", "framesAbove.handlers"})

\* Run's prologue (vm.go Run / initGlobals / initLocals / initCurrentFrame)
PrologueCleans == {"err", "abort", "globals", "stack.locals", "curFrame", "frame0.fn", "frame0.freeVars", "frame0.handlers",
                   "frame0.discardRet", "frameIndex", "ip", "sp"}
\* a call (xOpCallCompiled) writes the callee frame before use; a push writes a stack slot before it is read
CallSetupCleans == {"framesAbove.fn", "framesAbove.freeVars", "framesAbove.handlers", "framesAbove.discardRet", "framesAbove.bp", "stack.above"}
OpCleans(op) == CASE op = "none-same-bytecode" -> {}
                  [] op = "clear" -> {"stack.locals", "stack.above", "pool.vms", "modulesCache", "globals"}
                  [] op = "setbytecode" -> {"modulesCache"}
                  [] op = "clear+setbytecode" -> {"stack.locals", "stack.above", "pool.vms", "modulesCache", "globals"}
\* the module cache is kept on purpose when the same bytecode is run again without Clear (REPL):
\* the property speaks about a VM "cleared or given new bytecode"
ProbeReads(p, op) == (Components \ (IF op = "none-same-bytecode" THEN {"modulesCache"} ELSE {}))
                                \ {"pool.vms"}      \* children are registered per Invoke and released

VARIABLES c, ph, dirty
vars == <<c, ph, dirty>>
Hist == UNION {[1..n -> Scripts] : n \in 1..MaxRuns}
Init == ph = 0 /\ dirty = {} /\ c \in [runs : Hist, op : Ops, probe : Probes]
Judge ==
  /\ ph = 0 /\ ph' = 1 /\ UNCHANGED c
  /\ LET RECURSIVE after(_,_)
         after(i, d) == IF i > Len(c.runs) THEN d
                        ELSE after(i + 1, (d \ PrologueCleans) \cup DirtyAfter(Term(c.runs[i])))
     IN dirty' = ((after(1, {}) \ OpCleans(c.op)) \ PrologueCleans) \ CallSetupCleans
Next == Judge
Spec == Init /\ [][Next]_vars

NoResidueRead == ph = 1 => (dirty \cap ProbeReads(c.probe, c.op)) = {}
Export == ph = 1 => CSVWrite("%1$s", <<ToJson([runs |-> c.runs, op |-> c.op, probe |-> c.probe])>>, IOEnv.OUT)
=============================================================================
