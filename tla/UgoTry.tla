------------------------------- MODULE UgoTry -------------------------------
(* C03 (and the try/finally part of C02/C06): reference semantics of
   try/catch/finally, loops and calls as documented in docs/error-handling.md,
   the compiler's control-flow layout (compiler_nodes.go: compileTryStmt,
   compileReturnStmt, compileBranchStmt, compileForStmt) and the VM's handler
   protocol (vm.go: xOpSetupTry, xOpSetupCatch, xOpSetupFinally, xOpThrow,
   OpFinalizer/findFinally, throw/handleThrownError).

   One behaviour per program of the bounded family: Init picks the program,
   Load computes reference result and code, Step executes the code on the VM
   model.  Invariants relate the two; Export writes one JSON record per
   program for the replay on the real implementation. *)
EXTENDS Integers, Sequences, FiniteSets, TLC, Json, CSV, IOUtils

CONSTANTS Family,      \* "d1" | "d2" | "sim"
          WithRte      \* include runtime errors (1/0) next to thrown errors

(* ---------- abstract syntax ----------
  stmt ::= [k:"ret"] | [k:"brk"] | [k:"cnt"] | [k:"thr"] | [k:"rte"]
         | [k:"try", b:Block, hc:BOOLEAN, c:Block, hf:BOOLEAN, f:Block]
         | [k:"loop", b:Block]        for i:=0;i<1;post { b }
         | [k:"call", b:Block]        func(){ b }()
  every block logs <<"B",path>> when entered; path = sequence of child indexes *)

Leaf == { [k |-> "ret"], [k |-> "brk"], [k |-> "cnt"], [k |-> "thr"] }
        \cup (IF WithRte THEN { [k |-> "rte"] } ELSE {})
T0   == [k |-> "try", b |-> <<>>, hc |-> FALSE, c |-> <<>>, hf |-> TRUE, f |-> <<>>]
TC0  == [k |-> "try", b |-> <<>>, hc |-> TRUE, c |-> <<>>, hf |-> FALSE, f |-> <<>>]

IsExit(s) == s.k \in {"ret","brk","cnt","thr","rte"}

\* blocks of at most two statements, exits only in last position
Blocks(S) == {<<>>} \cup {<<s>> : s \in S}
             \cup {<<s,t>> : s \in {x \in S : ~IsExit(x)}, t \in S}

S0 == Leaf \cup {T0}
B0 == Blocks(S0)

Try(BB,CB,FB) == { [k |-> "try", b |-> b, hc |-> TRUE,  c |-> c,    hf |-> TRUE,  f |-> f]    : b \in BB, c \in CB, f \in FB }
            \cup { [k |-> "try", b |-> b, hc |-> TRUE,  c |-> c,    hf |-> FALSE, f |-> <<>>] : b \in BB, c \in CB }
            \cup { [k |-> "try", b |-> b, hc |-> FALSE, c |-> <<>>, hf |-> TRUE,  f |-> f]    : b \in BB, f \in FB }

Small == {<<>>, <<[k |-> "ret"]>>, <<[k |-> "brk"]>>, <<[k |-> "thr"]>>, <<T0>>}

S1 == S0 \cup Try(B0, Small, Small) \cup Try(Small, B0, Small) \cup Try(Small, Small, B0)
         \cup {[k |-> "loop", b |-> b] : b \in B0} \cup {[k |-> "call", b |-> b] : b \in B0}

\* contexts: optional completed-try prefix, the statement inside loop / try / call
TF(b) == [k |-> "try", b |-> b, hc |-> FALSE, c |-> <<>>, hf |-> TRUE, f |-> <<>>]
Lp(b) == [k |-> "loop", b |-> b]
Cl(b) == [k |-> "call", b |-> b]
\* context number i around statement s (index form: programs are built in the
\* Load action from small choices; a *set* of all programs costs TLC minutes of
\* single-threaded normalisation)
NCtx == 8
CtxI(i, s) == CASE i = 1 -> <<s>>
                \* the statement leaves a try body whose finally block throws and catches an error of its own (the
                \* pending outcome - a value being returned, a jump, an error - lies below that try statement's handler)
                [] i = 8 -> <<[k |-> "try", b |-> <<s>>, hc |-> FALSE, c |-> <<>>, hf |-> TRUE,
                               f |-> <<[k |-> "try", b |-> <<[k |-> "thr"]>>, hc |-> TRUE, c |-> <<>>, hf |-> FALSE, f |-> <<>>]>>]>>
                [] i = 2 -> <<T0, s>>
                [] i = 3 -> <<Lp(<<s>>)>>
                [] i = 4 -> <<T0, Lp(<<s>>)>>
                [] i = 5 -> <<TF(<<s>>)>>
                [] i = 6 -> <<T0, TF(<<Lp(<<s>>), T0>>)>>
                [] i = 7 -> <<Cl(<<s>>)>>
\* second layer of contexts (thorough): the statement list of a context becomes
\* the body of another context; 0 = none
NCtx2 == 9
\* try {} finally { x }
TFf(x) == [k |-> "try", b |-> <<>>, hc |-> FALSE, c |-> <<>>, hf |-> TRUE, f |-> x]
Ctx2I(j, b) == CASE j = 0 -> b
                 \* the statements run in a function called from inside a finally block, and that try statement is nested in
                 \* another try statement of the same function (with catch and finally / with finally only): an error leaving
                 \* the called function meets a frame whose innermost handler is already in its finally block
                 [] j = 8 -> <<[k |-> "try", b |-> <<TFf(<<Cl(b)>>)>>, hc |-> TRUE, c |-> <<>>, hf |-> TRUE, f |-> <<>>]>>
                 [] j = 9 -> <<TF(<<TFf(<<Cl(b)>>), T0>>)>>
                 [] j = 1 -> <<T0>> \o b
                 [] j = 2 -> <<Lp(b)>>
                 [] j = 3 -> <<TF(b)>>
                 [] j = 4 -> <<Cl(b)>>
                 [] j = 5 -> <<[k |-> "try", b |-> b, hc |-> TRUE, c |-> <<>>, hf |-> TRUE, f |-> <<T0>>]>>
                 [] j = 6 -> <<TF(<<Cl(b)>>), T0>>
                 [] j = 7 -> <<[k |-> "try", b |-> <<[k |-> "thr"]>>, hc |-> TRUE, c |-> b, hf |-> TRUE, f |-> <<>>]>>

RECURSIVE ValidB(_,_), ValidS(_,_)
ValidS(s, inloop) ==
  CASE s.k \in {"brk","cnt"} -> inloop
    [] s.k = "try"  -> ValidB(s.b, inloop) /\ ValidB(s.c, inloop) /\ ValidB(s.f, inloop)
    [] s.k = "loop" -> ValidB(s.b, TRUE)
    [] s.k = "call" -> ValidB(s.b, FALSE)
    [] OTHER -> TRUE
ValidB(b, inloop) == \A i \in 1..Len(b) : ValidS(b[i], inloop)

(* ---------- reference semantics (big step) ---------- *)
\* result: [o |-> outcome, l |-> log]; outcome = <<"norm">> | <<"ret",path>> | <<"brk">> | <<"cnt">> | <<"thr",path>>
\* a runtime error is <<"thr", <<0>>>> (it cannot carry its path)
Norm == <<"norm">>
RECURSIVE XB(_,_,_), XS(_,_)
XS(s, p) ==
  CASE s.k = "ret" -> [o |-> <<"ret", p>>, l |-> <<>>]
    [] s.k = "brk" -> [o |-> <<"brk">>, l |-> <<>>]
    [] s.k = "cnt" -> [o |-> <<"cnt">>, l |-> <<>>]
    [] s.k = "thr" -> [o |-> <<"thr", p>>, l |-> <<>>]
    [] s.k = "rte" -> [o |-> <<"thr", <<0>>>>, l |-> <<>>]
    [] s.k = "loop" ->
         LET r == XB(s.b, p \o <<1>>, 1)
             post == IF r.o[1] \in {"norm","cnt"} THEN << <<"post", p>> >> ELSE <<>>
         IN  [o |-> IF r.o[1] \in {"norm","cnt","brk"} THEN Norm ELSE r.o, l |-> r.l \o post]
    [] s.k = "call" ->
         LET r == XB(s.b, p \o <<1>>, 1)
         IN  IF r.o[1] = "thr" THEN r
             ELSE [o |-> Norm, l |-> r.l \o << <<"retv", IF r.o[1] = "ret" THEN r.o[2] ELSE <<>> >> >>]
    [] s.k = "try" ->
         LET r1 == XB(s.b, p \o <<1>>, 1)
             r2 == IF s.hc /\ r1.o[1] = "thr"
                   THEN LET rc == XB(s.c, p \o <<2>>, 1)
                        IN [o |-> rc.o, l |-> r1.l \o << <<"caught", r1.o[2]>> >> \o rc.l]
                   ELSE r1
         IN  IF s.hf
             THEN LET r3 == XB(s.f, p \o <<3>>, 1)
                  IN [o |-> IF r3.o = Norm THEN r2.o ELSE r3.o, l |-> r2.l \o r3.l]
             ELSE r2
\* execute block b from statement i on; logs block entry when i = 1
XB(b, p, i) ==
  LET pre == IF i = 1 THEN << <<"B", p>> >> ELSE <<>> IN
  IF i > Len(b) THEN [o |-> Norm, l |-> pre]
  ELSE LET r == XS(b[i], p \o <<i>>) IN
       IF r.o # Norm THEN [o |-> r.o, l |-> pre \o r.l]
       ELSE LET rest == XB(b, p, i+1) IN [o |-> rest.o, l |-> pre \o r.l \o rest.l]

Ref(prog) ==
  LET r == XB(prog, <<>>, 1) IN
  [o |-> IF r.o[1] = "ret" THEN r.o ELSE IF r.o[1] = "thr" THEN r.o ELSE Norm, l |-> r.l]

\* how often does the finally block at path q appear in a log
Count(l, e) == Cardinality({i \in 1..Len(l) : l[i] = e})

(* ---------- compiler to abstract instructions with labels ---------- *)
\* cx: [tci |-> tryCatchIndex, ltci |-> loop.lastTryCatchIndex, lp |-> loop path]
I(op, a, b) == [op |-> op, a |-> a, b |-> b]
RECURSIVE CB(_,_,_), CS(_,_,_)
CS(s, p, cx) ==
  CASE s.k = "ret" -> (IF cx.tci > -1 THEN <<I("fin", 0, 0)>> ELSE <<>>) \o <<I("ret", p, 0)>>
    [] s.k \in {"brk","cnt"} ->
         (IF cx.ltci = cx.tci THEN <<>> ELSE <<I("fin", cx.ltci + 1, 0)>>)
         \o <<I("jmp", <<s.k, cx.lp>>, 0)>>
    [] s.k = "thr" -> <<I("thr1", p, 0)>>
    [] s.k = "rte" -> <<I("thr1", <<0>>, 0)>>
    [] s.k = "loop" ->
         LET cx2 == [cx EXCEPT !.ltci = cx.tci, !.lp = p] IN
         <<I("loopinit", p, 0), I("label", <<"cond", p>>, 0), I("jf", p, <<"brk", p>>)>>
         \o CB(s.b, p \o <<1>>, cx2)
         \o <<I("label", <<"cnt", p>>, 0), I("post", p, 0), I("jmp", <<"cond", p>>, 0), I("label", <<"brk", p>>, 0)>>
    [] s.k = "call" -> <<I("call", p \o <<1>>, 0)>>
    [] s.k = "try" ->
         \* tryCatchIndex stays incremented through the finally block (repaired layout)
         LET cxb == [cx EXCEPT !.tci = cx.tci + 1] IN
         <<I("setuptry", IF s.hc THEN <<"catch", p>> ELSE <<>>, <<"finally", p>>)>>
         \o CB(s.b, p \o <<1>>, cxb)
         \o (IF s.hc THEN <<I("jmp", <<"finally", p>>, 0), I("label", <<"catch", p>>, 0), I("setupcatch", 0, 0)>>
                          \o CB(s.c, p \o <<2>>, cxb)
             ELSE <<>>)
         \o <<I("label", <<"finally", p>>, 0), I("setupfinally", 0, 0)>>
         \o (IF s.hf THEN CB(s.f, p \o <<3>>, cxb) ELSE <<>>)
         \o <<I("throw0", 0, 0)>>
CB(b, p, cx) ==
  LET RECURSIVE go(_)
      go(i) == IF i > Len(b) THEN <<>> ELSE CS(b[i], p \o <<i>>, cx) \o go(i+1)
  IN <<I("log", <<"B", p>>, 0)>> \o go(1)

Cx0 == [tci |-> -1, ltci |-> -1, lp |-> <<>>]
CodeOf(b, p) == CB(b, p, Cx0) \o <<I("ret", <<>>, 1)>>   \* implicit return undefined (b=1 marks implicit)

RECURSIVE FnB(_,_)
\* the function bodies: set of <<path, block>> for every call node
FnB(b, p) == UNION { LET s == b[i] q == p \o <<i>> IN
                     CASE s.k = "call" -> {<<q \o <<1>>, s.b>>} \cup FnB(s.b, q \o <<1>>)
                       [] s.k = "loop" -> FnB(s.b, q \o <<1>>)
                       [] s.k = "try"  -> FnB(s.b, q \o <<1>>) \cup FnB(s.c, q \o <<2>>) \cup FnB(s.f, q \o <<3>>)
                       [] OTHER -> {}
                   : i \in 1..Len(b) }

LabelPos(code, l) == CHOOSE i \in 1..Len(code) : code[i].op = "label" /\ code[i].a = l

(* ---------- VM model (vm.go handler protocol) ---------- *)
VARIABLES prog, phase, code, frames, log, out, expected, disc
vars == <<prog, phase, code, frames, log, out, expected, disc>>
\* before Load, prog holds the construction choices <<s, i, j>>

Frame(fn) == [fn |-> fn, ip |-> 1, hs |-> <<>>, iter |-> <<>>]

Init ==
  \* d1: one layer of contexts, plus the second-layer context that declares a function literal inside a try body
  \* (the compile-time try depth of a function literal starts afresh); d2: every second-layer context
  /\ prog \in S1 \X (1..NCtx) \X (IF Family = "d1" THEN {0, 6, 8} ELSE 0..NCtx2)
  /\ phase = "load"
  /\ code = <<>> /\ frames = <<>> /\ log = <<>> /\ out = <<>> /\ expected = <<>>
  /\ disc = TRUE

Load ==
  /\ phase = "load"
  /\ LET p == Ctx2I(prog[3], CtxI(prog[2], prog[1])) IN
     /\ ValidB(p, FALSE)
     /\ prog' = p
     /\ code' = [x \in {<<>>} \cup {fb[1] : fb \in FnB(p, <<>>)} |->
                  IF x = <<>> THEN CodeOf(p, <<>>)
                  ELSE CodeOf((CHOOSE fb \in FnB(p, <<>>) : fb[1] = x)[2], x)]
     /\ expected' = Ref(p)
  /\ phase' = "run"
  /\ frames' = <<Frame(<<>>)>>
  /\ UNCHANGED <<log, out, disc>>

Top == frames[Len(frames)]
SetTop(f) == [frames EXCEPT ![Len(frames)] = f]
Ins == code[Top.fn][Top.ip]
Lbl(l) == LabelPos(code[Top.fn], l)
Pop(s) == SubSeq(s, 1, Len(s) - 1)
Last(s) == s[Len(s)]

\* vm.throw / handleThrownError: current frame first, then callers; frames
\* without a handler are dropped; a handler that is already in its finally
\* block (c = f = none) is popped and the search continues in the same frame
RECURSIVE Throw(_,_)
Throw(fs, e) ==
  IF fs = <<>> THEN <<>>
  ELSE LET f == fs[Len(fs)] IN
       IF f.hs = <<>> THEN Throw(Pop(fs), e)
       ELSE LET h == Last(f.hs) IN
            IF h.c # <<>> THEN [fs EXCEPT ![Len(fs)] = [f EXCEPT !.hs[Len(f.hs)].e = e, !.ip = LabelPos(code[f.fn], h.c)]]
            ELSE IF h.f # <<>> THEN [fs EXCEPT ![Len(fs)] = [f EXCEPT !.hs[Len(f.hs)].e = e, !.ip = LabelPos(code[f.fn], h.f)]]
            ELSE Throw([fs EXCEPT ![Len(fs)] = [f EXCEPT !.hs = Pop(f.hs)]], e)

DoThrow(fs, e) ==
  LET r == Throw(fs, e) IN
  IF r = <<>> THEN /\ out' = <<"thr", e>> /\ frames' = <<>> /\ UNCHANGED log
  ELSE /\ frames' = r /\ UNCHANGED <<out, log>>

\* findFinally(upto): pops dead handlers; returns <<hs', pos>>
RECURSIVE FindFin(_,_)
FindFin(hs, upto) ==
  LET idx == Len(hs) - 1 IN
  IF idx < upto \/ idx < 0 THEN <<hs, <<>>>>
  ELSE IF Last(hs).f = <<>> THEN FindFin(Pop(hs), upto)
  ELSE <<hs, Last(hs).f>>

Step ==
  /\ phase = "run" /\ out = <<>> /\ frames # <<>>
  /\ LET f == Top i == Ins nxt == [f EXCEPT !.ip = f.ip + 1] IN
     CASE i.op = "log" -> /\ log' = Append(log, i.a) /\ frames' = SetTop(nxt) /\ UNCHANGED <<out, disc>>
       [] i.op \in {"label"} -> /\ frames' = SetTop(nxt) /\ UNCHANGED <<log, out, disc>>
       [] i.op = "loopinit" -> /\ frames' = SetTop([nxt EXCEPT !.iter = Append(f.iter, 0)]) /\ UNCHANGED <<log, out, disc>>
       [] i.op = "jf" -> \* loop condition i < 1
            (IF Last(f.iter) < 1 THEN /\ frames' = SetTop(nxt) /\ UNCHANGED <<log, out, disc>>
             ELSE /\ frames' = SetTop([f EXCEPT !.ip = Lbl(i.b), !.iter = Pop(f.iter)]) /\ UNCHANGED <<log, out, disc>>)
       [] i.op = "post" -> /\ log' = Append(log, <<"post", i.a>>)
                           /\ frames' = SetTop([nxt EXCEPT !.iter = [f.iter EXCEPT ![Len(f.iter)] = @ + 1]])
                           /\ UNCHANGED <<out, disc>>
       [] i.op = "jmp" ->
            \* a break jumps to the brk label and leaves the loop: drop its counter
            /\ frames' = SetTop([f EXCEPT !.ip = Lbl(i.a),
                                 !.iter = IF i.a[1] = "brk" THEN Pop(f.iter) ELSE f.iter])
            /\ UNCHANGED <<log, out, disc>>
       [] i.op = "setuptry" ->
            /\ frames' = SetTop([nxt EXCEPT !.hs = Append(f.hs, [c |-> i.a, f |-> i.b, r |-> 0, e |-> <<>>, own |-> i.b])])
            /\ UNCHANGED <<log, out, disc>>
       [] i.op = "setupcatch" ->
            LET hs2 == IF f.hs # <<>> THEN [f.hs EXCEPT ![Len(f.hs)].c = <<>>, ![Len(f.hs)].e = <<>>] ELSE f.hs
                val == IF f.hs # <<>> THEN Last(f.hs).e ELSE <<>>
            IN /\ frames' = SetTop([nxt EXCEPT !.hs = hs2])
               /\ log' = Append(log, <<"caught", val>>)
               /\ UNCHANGED <<out, disc>>
       [] i.op = "setupfinally" ->
            \* handler discipline: the handler on top is the one this try statement pushed
            LET hs2 == IF f.hs # <<>> THEN [f.hs EXCEPT ![Len(f.hs)].c = <<>>, ![Len(f.hs)].f = <<>>] ELSE f.hs
            IN /\ frames' = SetTop([nxt EXCEPT !.hs = hs2])
               /\ disc' = (disc /\ f.hs # <<>> /\ Last(f.hs).own = code[f.fn][f.ip - 1].a)
               /\ UNCHANGED <<log, out>>
       [] i.op = "throw0" ->
            (IF f.hs # <<>> /\ Last(f.hs).e # <<>> THEN DoThrow(SetTop([nxt EXCEPT !.hs = Pop(f.hs)]), Last(f.hs).e) /\ UNCHANGED disc
             ELSE IF f.hs # <<>> /\ Last(f.hs).r > 0
                  THEN /\ frames' = SetTop([f EXCEPT !.ip = Last(f.hs).r, !.hs = Pop(f.hs)])
                       /\ UNCHANGED <<log, out, disc>>
                  ELSE /\ frames' = SetTop([nxt EXCEPT !.hs = IF f.hs = <<>> THEN <<>> ELSE Pop(f.hs)])
                       /\ UNCHANGED <<log, out, disc>>)
       [] i.op = "thr1" -> DoThrow(SetTop(nxt), i.a) /\ UNCHANGED disc
       [] i.op = "fin" ->
            LET r == FindFin(f.hs, i.a) IN
            (IF r[2] = <<>> THEN /\ frames' = SetTop([nxt EXCEPT !.hs = r[1]]) /\ UNCHANGED <<log, out, disc>>
             ELSE /\ frames' = SetTop([f EXCEPT !.hs = [r[1] EXCEPT ![Len(r[1])].r = f.ip, ![Len(r[1])].e = <<>>],
                                                !.ip = Lbl(r[2])])
                  /\ UNCHANGED <<log, out, disc>>)
       [] i.op = "call" -> /\ frames' = Append(SetTop(nxt), Frame(i.a)) /\ UNCHANGED <<log, out, disc>>
       [] i.op = "ret" ->
            (IF Len(frames) = 1 THEN /\ out' = IF i.b = 1 THEN <<"norm">> ELSE <<"ret", i.a>>
                                     /\ frames' = <<>> /\ UNCHANGED <<log, disc>>
             ELSE /\ frames' = Pop(frames)
                  /\ log' = Append(log, <<"retv", i.a>>)
                  /\ UNCHANGED <<out, disc>>)
  /\ UNCHANGED <<prog, code, expected, phase>>

Done == out # <<>> /\ UNCHANGED vars
Next == Load \/ Step \/ Done
Spec == Init /\ [][Next]_vars

(* ---------- properties ---------- *)
\* the VM model (= the protocol the implementation is meant to follow) refines the reference
Conforms == out # <<>> => (out = expected.o /\ log = expected.l)
\* the finally entry of T is "setupfinally" preceded by label <<"finally",T>>
HandlerDiscipline == disc
\* handler list depth never exceeds the static nesting depth of try statements
RECURSIVE DepthB(_), DepthS(_)
Max(a, b) == IF a > b THEN a ELSE b
DepthS(s) == CASE s.k = "try" -> 1 + Max(DepthB(s.b), Max(DepthB(s.c), DepthB(s.f)))
               [] s.k = "loop" -> DepthB(s.b)
               [] OTHER -> 0
DepthB(b) == IF b = <<>> THEN 0 ELSE Max(DepthS(Head(b)), DepthB(Tail(b)))
HandlerBound == phase = "run" => \A k \in 1..Len(frames) : Len(frames[k].hs) <= 4

Export == out # <<>> =>
   CSVWrite("%1$s", <<ToJson([prog |-> prog, exp |-> expected, out |-> out, log |-> log])>>, IOEnv.OUT)
=============================================================================
