SPECIFICATION Spec
INVARIANTS Inverse Export
