CONSTANTS
  MaxN = 4
  Pool = 27
  Full3 = TRUE
SPECIFICATION Spec
INVARIANTS Export
