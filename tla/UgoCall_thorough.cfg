CONSTANTS
  MaxN = 4
  Pool = 26
  Full3 = TRUE
SPECIFICATION Spec
INVARIANTS Export
