CONSTANTS
  MaxN = 4
  Pool = 25
  Full3 = TRUE
SPECIFICATION Spec
INVARIANTS Export
