CONSTANTS
  MaxN = 4
  Pool = 16
  Full3 = TRUE
SPECIFICATION Spec
INVARIANTS Export
