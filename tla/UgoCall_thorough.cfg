CONSTANTS
  MaxN = 4
  Pool = 29
  Full3 = TRUE
SPECIFICATION Spec
INVARIANTS Export
