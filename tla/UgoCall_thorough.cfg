CONSTANTS
  MaxN = 4
  Pool = 28
  Full3 = TRUE
SPECIFICATION Spec
INVARIANTS Export
