CONSTANTS
  MaxN = 4
  Pool = 22
  Full3 = TRUE
SPECIFICATION Spec
INVARIANTS Export
