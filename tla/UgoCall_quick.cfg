CONSTANTS
  MaxN = 4
  Pool = 27
  Full3 = FALSE
SPECIFICATION Spec
INVARIANTS Export
