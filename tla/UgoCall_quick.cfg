CONSTANTS
  MaxN = 4
  Pool = 26
  Full3 = FALSE
SPECIFICATION Spec
INVARIANTS Export
