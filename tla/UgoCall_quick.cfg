CONSTANTS
  MaxN = 4
  Pool = 25
  Full3 = FALSE
SPECIFICATION Spec
INVARIANTS Export
