CONSTANTS
  MaxN = 4
  Pool = 28
  Full3 = FALSE
SPECIFICATION Spec
INVARIANTS Export
