CONSTANTS
  MaxN = 4
  Pool = 16
  Full3 = FALSE
SPECIFICATION Spec
INVARIANTS Export
