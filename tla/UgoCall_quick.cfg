CONSTANTS
  MaxN = 4
  Pool = 29
  Full3 = FALSE
SPECIFICATION Spec
INVARIANTS Export
