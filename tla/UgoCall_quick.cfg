CONSTANTS
  MaxN = 4
  Pool = 22
  Full3 = FALSE
SPECIFICATION Spec
INVARIANTS Export
