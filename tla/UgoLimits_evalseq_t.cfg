CONSTANTS
  Part = "evalseq"
  MaxLen = 4
SPECIFICATION Spec
INVARIANTS Export
