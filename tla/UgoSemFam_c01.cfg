CONSTANTS
  Fams = {"shadow", "fold", "cond", "xfold"}
SPECIFICATION Spec
INVARIANTS Modelled Export
