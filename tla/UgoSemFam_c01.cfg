CONSTANTS
  Fams = {"shadow", "fold", "cond"}
SPECIFICATION Spec
INVARIANTS Modelled Export
