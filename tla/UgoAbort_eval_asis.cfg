CONSTANTS
  Variant = "asis"
  Mode = "eval"
  RootScript <- ScriptCb1
  LoopTo = 1
  RootInf = TRUE
  ChildLen = 1
  NAborts = 2
  Hist = FALSE
SPECIFICATION Spec
INVARIANTS TypeOK Mutex NoStuck
PROPERTIES EvalReturns
