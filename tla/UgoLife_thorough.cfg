CONSTANTS
  MaxRuns = 3
SPECIFICATION Spec
INVARIANTS NoResidueRead Export
