------------------------------- MODULE UgoPanic -------------------------------
(* C06: with recovery enabled a run never panics the host.

   Abstract machine with small limits: a value stack of StackSize slots and
   FrameSize call frames.  A failure (Go panic in an operator / builtin / Go
   callback, value-stack overflow, frame overflow) strikes at a stack height
   sp and frame index fi, inside or outside a try region.  Recover() reaches
   handlePanic, which unwinds to a handler only while sp and fi are inside the
   arrays (vm.go handlePanic guard) and otherwise ends the run with an error.
   Invariants: every index touched by the recovery path is in range
   (RecoverySafe), the run ends in a value or an error (Total), and the VM
   state a following Run starts from does not depend on the failure (Reusable).
   TLC explores every (kind, sp, fi, context); the exported case matrix is
   instantiated by the harness against the real limits 2048 / 1024. *)
EXTENDS Integers, Sequences, FiniteSets, TLC, Json, CSV, IOUtils

CONSTANTS StackSize, FrameSize

Kinds == {"div0", "mod0", "shiftneg", "index", "slice", "notcallable", "nargs", "gopanic", "gopanic-nil", "gopanic-nilerr", "gopanic-nilrte", "gopanic-ugoerr", "gopanic-struct", "syncmap-get", "syncmap-set", "throw",
          "framelimit", "stacklimit", "wideexpr", "framelimit-catch", "notiterable", "setindex", "setselector", "spread", "builtin-type"}
Ctxs  == {"plain", "try-catch", "try-finally", "catch-rethrow", "callback", "callback-try",
          \* the failure strikes on a child VM (pooled or not) that has its own handler, or on a child VM the
          \* host starts after Run returned: a child VM recovers exactly like the VM it was made for
          "try-in-callback", "try-in-callback-unpooled", "host-invoke", "host-invoke-unpooled",
          \* the failure strikes again after it was caught once in the same run (recovery is not used up)
          "catch-then-catch", "catch-then-plain", "loop-catch"}
NoHandlerCtxs == {"plain", "host-invoke", "host-invoke-unpooled", "catch-then-plain"}
Depths == {"shallow", "nearframes", "nearstack"}

VARIABLES sp, fi, handlers, err, done, kind, ctxt, touched
vars == <<sp, fi, handlers, err, done, kind, ctxt, touched>>

Init == /\ kind \in Kinds /\ ctxt \in Ctxs
        /\ sp \in 0..StackSize /\ fi \in 1..FrameSize
        \* handler frames: set of frame indexes <= fi holding an open try (with the sp they recorded)
        /\ handlers \in {{}} \cup {{[f |-> f, s |-> s]} : f \in 1..fi, s \in 0..sp}
        /\ (ctxt \in NoHandlerCtxs <=> handlers = {})
        /\ err = "none" /\ done = FALSE /\ touched = {}

\* the failing instruction itself: limits are detected by the VM (error value), the others are Go panics
Strike ==
  /\ ~done /\ err = "none"
  /\ LET guard == sp < StackSize /\ fi <= FrameSize IN
     IF guard
     THEN \* throwGenErr: unwind to the nearest handler, restoring its sp; frames above are cleared
          IF handlers # {}
          THEN LET h == CHOOSE x \in handlers : TRUE IN
               /\ touched' = {<<"stack", i>> : i \in h.s..sp} \cup {<<"frame", i>> : i \in h.f..fi}
               /\ sp' = h.s /\ fi' = h.f /\ handlers' = {} /\ err' = "caught" /\ done' = TRUE
          ELSE /\ touched' = {<<"frame", i>> : i \in 1..fi}
               /\ err' = "error" /\ done' = TRUE /\ UNCHANGED <<sp, fi, handlers>>
     ELSE \* outside the arrays: no unwinding, the run ends with an error
          /\ err' = "error" /\ done' = TRUE /\ touched' = {} /\ UNCHANGED <<sp, fi, handlers>>
  /\ UNCHANGED <<kind, ctxt>>

Next == Strike
Spec == Init /\ [][Next]_vars

RecoverySafe == \A t \in touched : (t[1] = "stack" => t[2] >= 0 /\ t[2] < StackSize + 1) /\ (t[1] = "frame" => t[2] >= 1 /\ t[2] <= FrameSize)
Total == done => err \in {"caught", "error"}
\* what the script observes
Outcome == IF err = "caught" THEN "value" ELSE "error"

\* case matrix for the real code (one line per kind x context x depth)
Expect(k, x, d) ==
  \* near a limit the VM may report the limit instead of the failure: only totality is required there
  \* (the same holds for the two limit kinds themselves: the property allows delivery to a handler or an error from Run)
  IF d # "shallow" \/ k \in {"framelimit", "stacklimit", "wideexpr", "framelimit-catch"} THEN "value-or-error"
  ELSE IF x \in {"try-catch", "try-finally", "callback-try", "try-in-callback", "try-in-callback-unpooled", "catch-then-catch", "loop-catch"} THEN (IF x = "try-finally" THEN "error-after-finally" ELSE "value")
  ELSE "error"
Matrix == {[kind |-> k, ctx |-> x, depth |-> d, expect |-> Expect(k, x, d)] : k \in Kinds, x \in Ctxs, d \in Depths}
\* C14 on failures: a function the host calls through an Invoker (from a callback during the run, pooled or not, or
\* after Run) meets the same fate as the same function called inside the script - pairs <<in-script context, Go context>>
InvokePairs == {<<"plain", "callback">>, <<"plain", "host-invoke">>, <<"plain", "host-invoke-unpooled">>,
                <<"try-catch", "try-in-callback">>, <<"try-catch", "try-in-callback-unpooled">>}
ASSUME InvokeSame == \A p \in InvokePairs, k \in Kinds, d \in Depths : Expect(k, p[1], d) = Expect(k, p[2], d)
\* Run binds the host's arguments to the main function's parameter list before the loop (and its recover) starts, an
\* Invoker does the same for the function it calls: every (fixed parameters, variadic?, argument count) must bind -
\* missing arguments are undefined, surplus ones go to the variadic parameter or are dropped (lenient by design)
ParamShapes == [fixed : 0..3, variadic : BOOLEAN, nargs : 0..5]
BoundFixed(s) == IF s.nargs < s.fixed THEN s.nargs ELSE s.fixed
RestLen(s) == IF s.variadic /\ s.nargs > s.fixed THEN s.nargs - s.fixed ELSE 0
ASSUME BindTotal == \A s \in ParamShapes : BoundFixed(s) \in 0..s.fixed /\ RestLen(s) >= 0 /\ BoundFixed(s) + RestLen(s) <= s.nargs
ASSUME CSVWrite("%1$s", <<ToJson(Matrix)>>, IOEnv.OUT)
ASSUME CSVWrite("%1$s", <<ToJson(InvokePairs)>>, IOEnv.OUT)
=============================================================================
