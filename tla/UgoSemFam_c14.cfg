CONSTANTS
  Fams = {"inv"}
SPECIFICATION Spec
INVARIANTS Modelled InvSame Export
