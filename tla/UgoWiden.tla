------------------------------ MODULE UgoWiden ------------------------------
(* C11: conversion of version 1 bytecode (2-byte jump operands) to the current
   format (4-byte jump operands), encoder/v1.go.

   A listing is a sequence of instructions whose jump operands are *indexes*
   of target instructions (n+1 = position after the last one, 0 = "no catch").
   V1(L) / V2(L) are its byte encodings under the two operand-width tables
   (taken from the real tables opv1.OpcodeOperands / ugo.OpcodeOperands, which
   the harness dumps).  The conversion is specified twice:
     - denotationally: Widen(V1(L)) must be V2(L) - every jump / try target
       and every source-map key is the new position of the instruction the old
       one pointed to;
     - operationally: WidenB is the two-pass byte algorithm (position map, then
       rewrite), checked against the denotational form for every listing.
   TLC enumerates every listing up to MaxLen over an instruction alphabet with
   every target and exports V1 / V2 / source maps for the replay through the
   real decoder. *)
EXTENDS Integers, Sequences, FiniteSets, TLC, Json, CSV, IOUtils

CONSTANTS MaxLen, Alphabet     \* "full" | "jumps"

W1T == JsonDeserialize(IOEnv.W1)   \* operand widths per opcode, version 1 (index = opcode + 1)
W2T == JsonDeserialize(IOEnv.W2)   \* current format

OpConstant == 1  OpCall == 2  OpGetLocal == 5  OpJump == 12  OpJumpFalsy == 13  OpAndJump == 14  OpOrJump == 15
OpNull == 21  OpLoadModule == 32  OpSetupTry == 34  OpThrow == 37
JumpOps == {OpJump, OpJumpFalsy, OpAndJump, OpOrJump, OpSetupTry}
IsJump(op) == op \in JumpOps
W1(op) == W1T[op + 1]
W2(op) == W2T[op + 1]
RECURSIVE Sum(_)
Sum(s) == IF s = <<>> THEN 0 ELSE Head(s) + Sum(Tail(s))
Size(W(_), op) == 1 + Sum(W(op))

Plain == {[op |-> OpNull, a |-> 0, b |-> 0], [op |-> OpGetLocal, a |-> 7, b |-> 0],
          [op |-> OpConstant, a |-> 258, b |-> 0], [op |-> OpLoadModule, a |-> 3, b |-> 259],
          [op |-> OpCall, a |-> 2, b |-> 1]}
Jumps1(n) == IF Alphabet = "full" THEN {OpJump, OpJumpFalsy, OpAndJump, OpOrJump} ELSE {OpJump, OpOrJump}
Instrs(n) == {[op |-> op, a |-> a, b |-> 0] : op \in Jumps1(n), a \in 1..(n+1)}
        \cup {[op |-> OpSetupTry, a |-> a, b |-> b] : a \in 0..(n+1), b \in 1..(n+1)}    \* a = 0: no catch
        \cup (IF Alphabet = "full" THEN Plain ELSE {[op |-> OpNull, a |-> 0, b |-> 0], [op |-> OpConstant, a |-> 258, b |-> 0]})

RECURSIVE OffTo(_,_,_)
OffTo(W(_), L, i) == IF i <= 1 THEN 0 ELSE OffTo(W, L, i - 1) + Size(W, L[i-1].op)
Off1(L, i) == OffTo(W1, L, i)
Off2(L, i) == OffTo(W2, L, i)

BE(v, w) == CASE w = 1 -> <<v % 256>>
              [] w = 2 -> <<(v \div 256) % 256, v % 256>>
              [] w = 4 -> <<0, (v \div 65536) % 256, (v \div 256) % 256, v % 256>>
Enc(W(_), Off(_,_), L, i) ==
  LET x == L[i]  ws == W(x.op)
      va == IF IsJump(x.op) THEN (IF x.a = 0 THEN 0 ELSE Off(L, x.a)) ELSE x.a
      vb == IF x.op = OpSetupTry THEN Off(L, x.b) ELSE x.b
  IN <<x.op>> \o (IF Len(ws) >= 1 THEN BE(va, ws[1]) ELSE <<>>) \o (IF Len(ws) = 2 THEN BE(vb, ws[2]) ELSE <<>>)
RECURSIVE Bytes(_,_,_,_)
Bytes(W(_), Off(_,_), L, i) == IF i > Len(L) THEN <<>> ELSE Enc(W, Off, L, i) \o Bytes(W, Off, L, i + 1)

V1(L) == Bytes(W1, Off1, L, 1)
V2(L) == Bytes(W2, Off2, L, 1)      \* the denotational specification of the conversion
SrcMap(Off(_,_), L) == [i \in 1..Len(L) |-> <<Off(L, i), 100 + i>>]

(* ---- the conversion as a byte algorithm (two passes) ---- *)
Rd(bs, p, w) == IF w = 1 THEN bs[p + 1] ELSE IF w = 2 THEN bs[p + 1] * 256 + bs[p + 2]
                ELSE bs[p + 2] * 65536 + bs[p + 3] * 256 + bs[p + 4]      \* p is 0-based position of the first operand byte
\* pass 1: old position -> new position, for every instruction boundary and the end
RECURSIVE PosMap(_,_,_,_)
PosMap(bs, i, n, acc) ==
  LET acc2 == acc @@ (i :> n) IN
  IF i >= Len(bs) THEN acc2
  ELSE LET op == bs[i + 1] IN PosMap(bs, i + Size(W1, op), n + Size(W2, op), acc2)
\* pass 2
RECURSIVE Rewrite(_,_,_)
Rewrite(bs, i, pm) ==
  IF i >= Len(bs) THEN <<>>
  ELSE LET op == bs[i + 1]  ws == W1(op)  ns == W2(op)
           a  == IF Len(ws) >= 1 THEN Rd(bs, i + 1, ws[1]) ELSE 0
           b  == IF Len(ws) = 2 THEN Rd(bs, i + 1 + ws[1], ws[2]) ELSE 0
           a2 == IF IsJump(op) THEN pm[a] ELSE a
           b2 == IF op = OpSetupTry THEN pm[b] ELSE b
       IN <<op>> \o (IF Len(ns) >= 1 THEN BE(a2, ns[1]) ELSE <<>>) \o (IF Len(ns) = 2 THEN BE(b2, ns[2]) ELSE <<>>)
          \o Rewrite(bs, i + Size(W1, op), pm)
WidenB(bs) == Rewrite(bs, 0, PosMap(bs, 0, 0, <<>>))
WidenSM(bs, sm) == LET pm == PosMap(bs, 0, 0, <<>>) IN [k \in 1..Len(sm) |-> <<pm[sm[k][1]], sm[k][2]>>]

VARIABLES n, L, done
vars == <<n, L, done>>
Init == n \in 1..MaxLen /\ L \in [1..n -> Instrs(n)] /\ done = FALSE
Next == ~done /\ done' = TRUE /\ UNCHANGED <<n, L>>
Spec == Init /\ [][Next]_vars

\* the algorithm relocates every target: it agrees with the denotational form
AlgorithmCorrect == done => (WidenB(V1(L)) = V2(L) /\ WidenSM(V1(L), SrcMap(Off1, L)) = SrcMap(Off2, L))
\* widening is injective on positions: the position map is strictly increasing
Monotone == done => LET pm == PosMap(V1(L), 0, 0, <<>>) IN \A x, y \in DOMAIN pm : x < y => pm[x] < pm[y]
Export == done => CSVWrite("%1$s", <<ToJson([v1 |-> V1(L), v2 |-> V2(L), sm1 |-> SrcMap(Off1, L), sm2 |-> SrcMap(Off2, L)])>>, IOEnv.OUT)
=============================================================================
