CONSTANTS
  MaxLen = 4
  Mode = "strings"
SPECIFICATION Spec
INVARIANTS Total Proportional Export
