CONSTANTS
  MaxDepth = 3
SPECIFICATION Spec
INVARIANTS ShiftLaw Export
