CONSTANTS
  MaxLen = 0
  Part = "trees"
SPECIFICATION Spec
INVARIANTS Export
