CONSTANTS
  MaxLen = 4
  Part = "accept"
SPECIFICATION Spec
INVARIANTS Sane Export
