CONSTANTS
  MaxLen = 5
  Part = "accept"
SPECIFICATION Spec
INVARIANTS Sane Export
