CONSTANTS
  MaxLen = 2
  Part = "near"
SPECIFICATION Spec
INVARIANTS Export
