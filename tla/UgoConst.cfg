SPECIFICATION Spec
INVARIANT Export
