----------------------------- MODULE UgoBoundary -----------------------------
(* C20: values crossing the Go boundary (ugo.go: ToObject, ToObjectAlt,
   ToInterface) as functions on tagged trees.

   uGO side  U ::= int | uint | float | bool | char | string | bytes | undefined | array of U | map(U)
   Go side   G ::= int64 | uint64 | float64 | bool | rune | string | bytes | nil | slice of G | gomap(G)
             plus the other Go kinds of the width table.
   ToI : U -> G and ToO : G -> U are defined here; TLC checks on every tree up
   to depth 2 that they are mutual inverses (nil and empty containers being
   interchangeable) and exports each tree with the expected image; the harness
   instantiates the leaf kinds with boundary values and compares. *)
EXTENDS Integers, Sequences, FiniteSets, TLC, Json, CSV, IOUtils

ULeaf == {"int", "uint", "float", "bool", "char", "string", "bytes", "undefined"}
GCanon == {"int64", "uint64", "float64", "bool", "rune", "string", "bytes", "nil"}
\* other Go kinds: how ToObject / ToObjectAlt must treat them ("err" = unsupported, reported as an error)
Widths == {"int", "int8", "int16", "int32", "uint", "uint8", "uint16", "uint32", "uintptr", "float32", "struct", "chan", "strslice"}

LeafToI(u) == CASE u = "int" -> "int64" [] u = "uint" -> "uint64" [] u = "float" -> "float64" [] u = "bool" -> "bool"
                [] u = "char" -> "rune" [] u = "string" -> "string" [] u = "bytes" -> "bytes" [] u = "undefined" -> "nil"
LeafToO(g) == CASE g = "int64" -> "int" [] g = "uint64" -> "uint" [] g = "float64" -> "float" [] g = "bool" -> "bool"
                [] g = "rune" -> "char" [] g = "string" -> "string" [] g = "bytes" -> "bytes" [] g = "nil" -> "undefined"
\* ToObject: int32 and uint8 are Go's rune and byte aliases -> char; the remaining widths have no case
WidthToObject(g) == CASE g \in {"int"} -> "int" [] g \in {"uint", "uintptr"} -> "uint" [] g = "float32" -> "float"
                      [] g = "int32" -> "char" [] g = "uint8" -> "char"
                      [] OTHER -> "err"
\* ToObjectAlt: "will always convert signed integers to Int and unsigned integers to Uint"
WidthToObjectAlt(g) == CASE g \in {"int", "int8", "int16", "int32"} -> "int"
                         [] g \in {"uint", "uint8", "uint16", "uint32", "uintptr"} -> "uint"
                         [] g = "float32" -> "float"
                         [] OTHER -> "err"

\* Go types the modules register converters for (stdlib/time, stdlib/json): the uGO type they convert to and
\* the Go type ToInterface gives back - the same value for a time (also the zero time), a location and a raw
\* message (nil and empty interchangeable), the same numeric value for a duration
RegKinds == {"time", "timeptr", "duration", "location", "rawjson"}
RegToObject(g) == CASE g \in {"time", "timeptr"} -> "time" [] g = "duration" -> "int" [] g = "location" -> "location" [] g = "rawjson" -> "rawMessage"
RegBack(g) == CASE g \in {"time", "timeptr"} -> "time" [] g = "duration" -> "int64" [] g = "location" -> "location" [] g = "rawjson" -> "rawjson"
Wraps == {"none", "seq", "map", "seqfirst", "seqmid", "mapmulti", "nestseq", "nestmap"}

\* trees: [k |-> "leaf", v] | [k |-> "seq", es] | [k |-> "map", es]  (map keys are "k1", "k2", ...)
RECURSIVE ToI(_), ToO(_)
ToI(t) == IF t.k = "leaf" THEN [k |-> "leaf", v |-> LeafToI(t.v)]
          ELSE [k |-> t.k, es |-> [i \in 1..Len(t.es) |-> ToI(t.es[i])]]
ToO(t) == IF t.k = "leaf" THEN [k |-> "leaf", v |-> LeafToO(t.v)]
          ELSE [k |-> t.k, es |-> [i \in 1..Len(t.es) |-> ToO(t.es[i])]]

Leaf(S) == [k : {"leaf"}, v : S]
Trees(S) == Leaf(S)
            \cup {[k |-> kk, es |-> <<>>] : kk \in {"seq", "map"}}
            \cup {[k |-> kk, es |-> <<a>>] : kk \in {"seq", "map"}, a \in Leaf(S)}
            \cup {[k |-> kk, es |-> <<a, b>>] : kk \in {"seq", "map"}, a \in Leaf(S), b \in Leaf(S)}
            \cup {[k |-> k1, es |-> <<[k |-> k2, es |-> <<a>>], b>>] : k1 \in {"seq", "map"}, k2 \in {"seq", "map"}, a \in Leaf(S), b \in Leaf(S)}
            \cup {[k |-> k1, es |-> <<[k |-> k2, es |-> <<>>]>>] : k1 \in {"seq", "map"}, k2 \in {"seq", "map"}}

VARIABLES c, ph
vars == <<c, ph>>
Init == /\ ph = 0
        /\ \/ c \in [d : {"u2g"}, t : Trees(ULeaf)]
           \/ c \in [d : {"g2u"}, t : Trees(GCanon)]
           \/ c \in [d : {"width"}, g : Widths, wrap : Wraps]
           \/ c \in [d : {"reg"}, g : RegKinds, wrap : Wraps]
           \* a conversion is a function of the value: an inner container reachable twice (shared, no cycle) converts
           \* like the tree in which it is written out twice
           \/ c \in [d : {"shared"}, dir : {"u2g", "g2u"}, outer : {"seq", "map", "mapseq", "seqmap", "deep"}, inner : {"seq", "map"}]
Judge == ph = 0 /\ ph' = 1 /\ UNCHANGED c
Next == Judge
Spec == Init /\ [][Next]_vars

\* the two conversions are mutual inverses on the plain / canonical trees
Inverse == ph = 1 => CASE c.d = "u2g" -> ToO(ToI(c.t)) = c.t
                       [] c.d = "g2u" -> ToI(ToO(c.t)) = c.t
                       [] OTHER -> TRUE
Export == ph = 1 =>
  CSVWrite("%1$s", <<ToJson(CASE c.d = "u2g" -> [d |-> "u2g", t |-> c.t, img |-> ToI(c.t)]
                              [] c.d = "g2u" -> [d |-> "g2u", t |-> c.t, img |-> ToO(c.t)]
                              [] c.d = "shared" -> [d |-> "shared", dir |-> c.dir, outer |-> c.outer, inner |-> c.inner]
                              [] c.d = "reg" -> [d |-> "reg", g |-> c.g, wrap |-> c.wrap, obj |-> RegToObject(c.g), back |-> RegBack(c.g)]
                              [] OTHER -> [d |-> "width", g |-> c.g, wrap |-> c.wrap,
                                           obj |-> WidthToObject(c.g), alt |-> WidthToObjectAlt(c.g)])>>, IOEnv.OUT)
=============================================================================
