CONSTANTS
  MaxDepth = 6
SPECIFICATION Spec
INVARIANTS ShiftLaw Export
