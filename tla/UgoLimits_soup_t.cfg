CONSTANTS
  Part = "soup"
  MaxLen = 4
SPECIFICATION Spec
INVARIANTS Export
