CONSTANTS
  Family = "d1"
  WithRte = FALSE
SPECIFICATION Spec
INVARIANTS Conforms HandlerDiscipline HandlerBound Export
