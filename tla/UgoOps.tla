------------------------------- MODULE UgoOps -------------------------------
(* C15: operator laws and the documented numeric semantics (docs/operators.md,
   docs/runtime-types.md), checked by TLC on the operator table recorded from
   the real implementation (code -> spec).  One TLC state per cell
   (operator, left value, right value); the value domain is a boundary set of
   every built-in type, each value carrying its type and - when it denotes a
   small integer - its numeric value, so that TLC can compute the expected
   result of the documented conversion + Go operation itself. *)
EXTENDS Integers, Sequences, FiniteSets, TLC, Json, CSV, IOUtils, Bitwise

T  == ndJsonDeserialize(IOEnv.TABLE)
NV == atoi(IOEnv.NV)      \* number of "val" lines (computed by the harness; counting here would be redone per use)
Ops == <<"+", "-", "*", "/", "%", "&", "|", "^", "&^", "<<", ">>", "<", "<=", ">", ">=", "==", "!=">>
NOps == Len(Ops)
OpIdx(o) == CHOOSE i \in 1..NOps : Ops[i] = o
Val(i) == T[i]
Cell(o, i, j) == T[NV + ((OpIdx(o) - 1) * NV + (i - 1)) * NV + j]
UnOps == <<"u+", "u-", "u^", "u!">>
UCell(k, i) == T[NV + NOps * NV * NV + (k - 1) * NV + i]
Idx == 1..NV

IsVal(c) == c.kind = "value"
NaN(i) == Val(i).name = "fnan"
B(o, i, j) == Cell(o, i, j).rbool

(* ------------------------------------------------ documented semantics *)
Numeric == {"int", "uint", "float", "char", "bool"}
Arith   == {"+", "-", "*", "/", "%", "&", "|", "^", "&^", "<<", ">>"}
Rel     == {"<", "<=", ">", ">="}

\* bool operands are untyped 1 / 0: they take the type of the other operand, int when both are bool
Eff(t, other) == IF t = "bool" THEN (IF other = "bool" THEN "int" ELSE other) ELSE t

\* result type of the documented conversion, "" when the combination is a TypeError
ConvType(ta, tb) ==
  LET a == Eff(ta, tb)  b == Eff(tb, ta) IN
  IF a = b THEN a
  ELSE IF {a, b} = {"float", "char"} THEN ""
  ELSE IF "float" \in {a, b} THEN "float"
  ELSE IF "char" \in {a, b} THEN "char"
  ELSE IF "uint" \in {a, b} THEN "uint"
  ELSE "int"

\* operators a (converted) type supports; char mixed with int/uint only + and -
Supports(op, ta, tb, ct) ==
  CASE ct = "float" -> op \in {"+", "-", "*", "/"}
    [] ct = "char"  -> IF Eff(ta, tb) = "char" /\ Eff(tb, ta) = "char" THEN op \in Arith
                       ELSE op \in {"+", "-"}
    [] ct \in {"int", "uint"} -> op \in Arith
    [] OTHER -> FALSE

\* left open (any value-or-error, never a panic):
\*  - operators.md lists * / % | ^ &^ << >> (and + -) for char with char but not &
\* (bool is "untyped 1 or 0 before arithmetic operation" and "if LHS or RHS is of char / float type, other operand is
\*  converted": a bool next to a float or a char is that float or char 1 / 0, on either side)
Unspecified(op, ta, tb) == op = "&" /\ Eff(ta, tb) = "char" /\ Eff(tb, ta) = "char"

\* expected kind of an arithmetic cell between numeric operands:
\*   "TypeError" | "ZeroDivisionError" | "ShiftError" (any uGO error) | "value"
ArithKind(op, i, j) ==
  LET a == Val(i)  b == Val(j)  ct == ConvType(a.typ, b.typ) IN
  IF ct = "" \/ ~Supports(op, a.typ, b.typ, ct) THEN "TypeError"
  ELSE IF op \in {"/", "%"} /\ ct # "float" /\ b.zero THEN "ZeroDivisionError"
  ELSE IF op = "/" /\ ct = "float" /\ b.zero THEN "ZeroOrValue"   \* x / 0.0: ZeroDivisionError or Go's Inf/NaN
  ELSE IF op \in {"<<", ">>"} /\ ct \in {"int", "char"} /\ b.neg THEN "ShiftError"
  ELSE "value"

Pow2(k) == 2 ^ k
\* value of the Go operation on small non-negative integers (no wrap-around possible)
Small(x) == x >= 0 /\ x < 1000
GoInt(op, x, y) ==
  CASE op = "+" -> x + y [] op = "-" -> x - y [] op = "*" -> x * y
    [] op = "/" -> x \div y [] op = "%" -> x % y
    [] op = "&" -> x & y [] op = "|" -> x | y [] op = "^" -> x ^^ y
    [] op = "&^" -> x - (x & y)
    [] op = "<<" -> x * Pow2(y) [] op = ">>" -> x \div Pow2(y)
\* is the value determined by small-integer arithmetic for this cell
ValueKnown(op, i, j, ct) ==
  LET a == Val(i)  b == Val(j) IN
  /\ a.hasnum /\ b.hasnum /\ Small(a.num) /\ Small(b.num)
  /\ (op \in {"<<", ">>"} => b.num <= 8)
  /\ (op = "-" => a.num >= b.num)
  /\ (ct = "float" => op \in {"+", "-", "*"})

\* relational operators between numeric operands
RelKind(i, j) == IF ConvType(Val(i).typ, Val(j).typ) = "" THEN "TypeError" ELSE "value"
GoRel(op, x, y) == CASE op = "<" -> x < y [] op = "<=" -> x <= y [] op = ">" -> x > y [] op = ">=" -> x >= y

(* ----------------------------------------------------------- per cell *)
Name(i, j) == <<Val(i).name, Val(j).name>>

\* presentation f of cell c ("" = the presentation does not exist for these operands)
Written(c, f, how, F(_)) ==
  IF c.kind # "panic" /\ c[f] # "" /\ c[f] # c.script
  THEN F(how \o " (optimizer on) the result is " \o c[f] \o ", the operator on the same values gives " \o c.script)
  ELSE <<>>

\* returns the sequence of failures of cell (op, i, j); <<>> when it is fine
CellFailures(op, i, j) ==
  LET c == Cell(op, i, j)  a == Val(i)  b == Val(j)
      numeric == a.typ \in Numeric /\ b.typ \in Numeric
      F(why) == << [op |-> op, a |-> a.name, b |-> b.name, why |-> why, got |-> c.script] >>
  IN
  (IF c.kind = "panic" THEN F("operator panics instead of raising an error") ELSE <<>>)
  \o (IF c.kind # "panic" /\ c.direct # c.script THEN F("Object.BinaryOp/Equal called from Go disagrees with the script-level operator: " \o c.direct) ELSE <<>>)
  \* an operator is a function of its operand values: however the operation is written
  \* (an operand as a literal or a constant, both as literals - where the optimizer folds or
  \* simplifies -, or as compound assignment) the outcome is the one of the plain operator
  \o Written(c, "litb", "with the right operand written as a literal", F)
  \o Written(c, "lita", "with the left operand written as a literal", F)
  \o Written(c, "litab", "with both operands written as literals", F)
  \o Written(c, "constb", "with the right operand a constant", F)
  \o Written(c, "asg", "written as compound assignment", F)
  \o (IF numeric /\ op \in Arith /\ c.kind # "panic" /\ ~Unspecified(op, a.typ, b.typ)
      THEN LET k == ArithKind(op, i, j)  ct == ConvType(a.typ, b.typ) IN
           CASE k \in {"TypeError", "ZeroDivisionError"} ->
                  (IF c.kind = "error" /\ c.rname = k THEN <<>> ELSE F("documented result is " \o k))
             [] k = "ZeroOrValue" ->
                  (IF (c.kind = "error" /\ c.rname = "ZeroDivisionError") \/ (c.kind = "value" /\ c.rt = "float") THEN <<>>
                   ELSE F("float division by zero must be ZeroDivisionError or a float"))
             [] k = "ShiftError" ->
                  (IF c.kind = "error" THEN <<>> ELSE F("negative shift count must be an error"))
             [] OTHER ->
                  (IF c.kind # "value" THEN F("documented result is a " \o ct \o " value")
                   ELSE IF c.rt # ct THEN F("documented result type is " \o ct)
                   ELSE IF ValueKnown(op, i, j, ct) /\ ~(c.hasrnum /\ c.rnum = GoInt(op, a.num, b.num))
                        THEN F("value differs from the Go operation on the converted operands: expected " \o ToString(GoInt(op, a.num, b.num)))
                   ELSE <<>>)
      ELSE <<>>)
  \o (IF numeric /\ op \in Rel /\ c.kind # "panic" /\ ~Unspecified(op, a.typ, b.typ)
      THEN (IF RelKind(i, j) = "TypeError"
            THEN (IF c.kind = "error" /\ c.rname = "TypeError" THEN <<>> ELSE F("documented result is TypeError"))
            ELSE IF c.kind # "value" \/ c.rt # "bool" THEN F("documented result is a bool")
            ELSE IF a.hasnum /\ b.hasnum /\ Small(a.num) /\ Small(b.num) /\ c.rbool # GoRel(op, a.num, b.num)
                 THEN F("comparison differs from the comparison of the converted operands")
            ELSE <<>>)
      ELSE <<>>)
  \* laws
  \o (IF op = "==" /\ i < j /\ (~IsVal(c) \/ ~IsVal(Cell("==", j, i)) \/ c.rbool # Cell("==", j, i).rbool)
      THEN F("a == b differs from b == a") ELSE <<>>)
  \o (IF op = "!=" /\ (~IsVal(c) \/ ~IsVal(Cell("==", i, j)) \/ c.rbool = Cell("==", i, j).rbool)
      THEN F("a != b is not the negation of a == b") ELSE <<>>)
  \o (IF op = "<" /\ (\A o \in Rel : IsVal(Cell(o, i, j)) /\ IsVal(Cell(o, j, i)))
      THEN (IF ~NaN(i) /\ ~NaN(j) /\ Cardinality({x \in {"<", "==", ">"} : B(x, i, j)}) # 1
            THEN F("not exactly one of a<b, a==b, a>b") ELSE <<>>)
           \o (IF ~NaN(i) /\ ~NaN(j) /\ (B("<=", i, j) # (B("<", i, j) \/ B("==", i, j)))
               THEN F("a<=b differs from a<b or a==b") ELSE <<>>)
           \o (IF B("<", i, j) # B(">", j, i) THEN F("a<b differs from b>a") ELSE <<>>)
      ELSE <<>>)
  \* same-type equality of small numbers is numeric equality
  \o (IF op = "==" /\ IsVal(c) /\ a.typ = b.typ /\ a.typ \in Numeric /\ a.hasnum /\ b.hasnum /\ c.rbool # (a.num = b.num)
      THEN F("equality of same-type numbers differs from numeric equality") ELSE <<>>)

UnaryFailures(k, i) ==
  LET c == UCell(k, i)  a == Val(i)  op == UnOps[k]
      F(why) == << [op |-> op, a |-> a.name, b |-> "", why |-> why, got |-> c.kind \o "/" \o c.rt \o "/" \o c.rname] >>
  IN
  (IF c.kind = "panic" THEN F("unary operator panics") ELSE <<>>)
  \o (IF op = "u!" /\ (c.kind # "value" \/ c.rt # "bool") THEN F("! applies to all types and yields bool") ELSE <<>>)
  \o (IF op \in {"u+", "u-"} /\ a.typ \in {"int", "uint", "float"} /\ (c.kind # "value" \/ c.rt # a.typ)
      THEN F("unary +/- keeps the operand type") ELSE <<>>)
  \o (IF op = "u-" /\ a.typ \in {"int", "float"} /\ a.hasnum /\ a.num # 0 /\ ~(c.hasrnum /\ c.rnum = 0 - a.num)
      THEN F("-x differs from 0 - x") ELSE <<>>)
  \o (IF op = "u^" /\ a.typ = "int" /\ a.hasnum /\ ~(c.hasrnum /\ c.rnum = (0 - a.num) - 1)
      THEN F("^x differs from -1 ^ x") ELSE <<>>)
  \o (IF op \in {"u+", "u-", "u^"} /\ a.typ \notin Numeric /\ ~(c.kind = "error" /\ c.rname = "TypeError")
      THEN F("unary arithmetic on a non-numeric value must be TypeError") ELSE <<>>)

(* ---------------------------------------------------- the state space *)
VARIABLES kind, o, i, j, ph
vars == <<kind, o, i, j, ph>>
Init == /\ ph = 0
        /\ \/ kind = "bin" /\ o \in 1..NOps /\ i \in Idx /\ j \in Idx
           \/ kind = "un" /\ o \in 1..Len(UnOps) /\ i \in Idx /\ j = 0
\* the cell is judged in a step (TLC computes initial states single-threaded)
Judge == ph = 0 /\ ph' = 1 /\ UNCHANGED <<kind, o, i, j>>
Next == Judge
Spec == Init /\ [][Next]_vars

Failures == IF kind = "bin" THEN CellFailures(Ops[o], i, j) ELSE UnaryFailures(o, i)
Export == ph = 1 => (Failures = <<>> \/ \A k \in 1..Len(Failures) : CSVWrite("%1$s", <<ToJson(Failures[k])>>, IOEnv.OUT))
=============================================================================
