CONSTANTS
  MaxLen = 3
  Alphabet = "full"
SPECIFICATION Spec
INVARIANTS AlgorithmCorrect Monotone Export
