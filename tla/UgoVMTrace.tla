----------------------------- MODULE UgoVMTrace -----------------------------
(* code -> spec: validates recorded per-instruction traces of the real VM
   (hook verifStep / verifSync of build tag verif) against
   - the property layer of C03: every dynamic activation of a try statement
     runs its finally entry exactly once before control leaves the statement's
     static region (FinallyOnce); after the THROW 0 that ends a finally block
     a pending jump resumes at the FINALIZER that was interrupted and a pending
     error is not swallowed (PendingResumes); value-stack / frame bounds;
   - the refinement layer: the handler count nh evolves as the handler protocol
     of UgoTry/vm.go says (SETUPTRY pushes one, THROW 0 pops at least one,
     nothing else ever grows the list).  A failure of this layer alone is model
     drift, not a violation.
   Static facts (try regions per function) come from a side file and are a
   constant; the state holds only the frames of the VMs currently inside Run. *)
EXTENDS Integers, Sequences, TLC, Json, IOUtils

Trace == ndJsonDeserialize(IOEnv.TRACE)
Regs  == JsonDeserialize(IOEnv.REGS)

StackSize == 2048
FrameSize == 1024

VARIABLES l,     \* next trace line
          fs,    \* vm id -> sequence of frame records
          thrown,\* vm ids with a throw event since their last step
          bad,   \* property-layer failures (C03 / C06 violations)
          drift, \* refinement-layer failures
          tag    \* tag of the current run (for reporting)
vars == <<l, fs, thrown, bad, drift, tag>>

Pop(s) == SubSeq(s, 1, Len(s) - 1)
In(a, ip) == a.s <= ip /\ ip <= a.e

RECURSIVE Keep(_,_)
Keep(acts, ip) == IF acts = <<>> THEN <<>>
                  ELSE IF In(acts[Len(acts)], ip) THEN acts ELSE Keep(Pop(acts), ip)
ClosedOK(acts, kept) == \A i \in (Len(kept)+1)..Len(acts) : acts[i].fin = 1
AllOK(acts) == \A i \in 1..Len(acts) : acts[i].fin = 1
FramesOK(F) == \A i \in 1..Len(F) : AllOK(F[i].acts)

RegionAt(fn, ip) == LET R == Regs[fn] IN R[CHOOSE i \in 1..Len(R) : R[i].s = ip]
HasRegion(fn, ip) == \E i \in 1..Len(Regs[fn]) : Regs[fn][i].s = ip
\* index of the innermost open act with a given catch / finally entry / end, 0 if none
IdxBy(acts, P(_)) == LET C == {i \in 1..Len(acts) : P(acts[i])} IN
                     IF C = {} THEN 0 ELSE CHOOSE i \in C : \A j \in C : j <= i

\* where must a thrown error be delivered: innermost open try statement, in the
\* nearest frame, that has not yet entered its finally block; its catch entry
\* while control is in its try block, else its finally entry
RECURSIVE HandlerIn(_,_), Handler(_,_)
HandlerIn(acts, i) == IF i = 0 THEN 0
                      ELSE IF acts[i].ph = "try" /\ acts[i].c > 0 THEN acts[i].c
                      ELSE IF acts[i].ph \in {"try", "catch"} THEN acts[i].f
                      ELSE HandlerIn(acts, i - 1)
Handler(F, k) == IF k = 0 THEN <<0, 0>>
                 ELSE LET h == HandlerIn(F[k].acts, Len(F[k].acts)) IN
                      IF h > 0 THEN <<k, h>> ELSE Handler(F, k - 1)

Init == l = 1 /\ fs = <<>> /\ thrown = {} /\ bad = <<>> /\ drift = <<>> /\ tag = 0
Get(v) == IF v \in DOMAIN fs THEN fs[v] ELSE <<>>
Put(v, x) == [w \in (DOMAIN fs) \cup {v} |-> IF w = v THEN x ELSE fs[w]]
Del(v) == [w \in (DOMAIN fs) \ {v} |-> fs[w]]

NoLast == [op |-> "", ip |-> -1, nx |-> -1, a |-> 0, nh |-> 0]
NoExp  == [k |-> "none", ip |-> 0]
NewFrame(fn) == [fn |-> fn, acts |-> <<>>, last |-> NoLast, exp |-> NoExp]
Fail(why) == Append(bad, [tag |-> tag, at |-> l, why |-> why])
Drift(why) == Append(drift, [tag |-> tag, at |-> l, why |-> why])

StepEv(e) ==
  LET F      == Get(e.vm)
      thr    == e.vm \in thrown
      popped == IF e.fi < Len(F) THEN SubSeq(F, e.fi + 1, Len(F)) ELSE <<>>
      pushed == e.fi > Len(F)
      base   == IF e.fi < Len(F) THEN SubSeq(F, 1, e.fi)
                ELSE IF pushed THEN Append(F, NewFrame(e.fn))
                ELSE F
      top    == base[Len(base)]
      same   == ~pushed /\ popped = <<>>      \* previous step of this vm was in this frame instance
      \* NearestHandler: a thrown error lands exactly at the predicted entry
      hd     == Handler(F, Len(F))
      ok0    == thr => (hd[1] = e.fi /\ hd[2] = e.ip)
      kept   == Keep(top.acts, e.ip)
      ok1    == /\ \A i \in 1..Len(popped) : AllOK(popped[i].acts)
                /\ ClosedOK(top.acts, kept)
      withTry == IF e.op = "SETUPTRY" /\ HasRegion(e.fn, e.ip)
                 THEN LET r == RegionAt(e.fn, e.ip) IN
                      Append(kept, [s |-> e.ip, c |-> r.c, f |-> r.f, e |-> r.e, ph |-> "try",
                                    fin |-> 0, pend |-> 0, perr |-> FALSE])
                 ELSE kept
      ci     == IF e.op = "SETUPCATCH" THEN IdxBy(withTry, LAMBDA a : a.c = e.ip) ELSE 0
      acts1  == IF ci > 0 THEN [withTry EXCEPT ![ci].ph = "catch"] ELSE withTry
      \* a catch block is entered only by error delivery, once
      okc    == e.op = "SETUPCATCH" => (ci > 0 /\ withTry[ci].ph = "try" /\ thr)
      fi     == IF e.op = "SETUPFINALLY" THEN IdxBy(acts1, LAMBDA a : a.f = e.ip) ELSE 0
      viaFin == same /\ ~thr /\ top.last.op = "FINALIZER"
      acts2  == IF fi > 0
                THEN [acts1 EXCEPT ![fi].fin = @ + 1, ![fi].ph = "fin",
                                   ![fi].pend = IF viaFin THEN top.last.ip ELSE 0,
                                   ![fi].perr = thr]
                ELSE acts1
      ok2    == e.op = "SETUPFINALLY" => (fi > 0 /\ acts2[fi].fin = 1)
      \* expectation set by the THROW 0 that ended a finally block in this frame
      ok3    == CASE top.exp.k = "at"    -> same /\ ~thr /\ e.ip = top.exp.ip
                  [] top.exp.k = "throw" -> thr
                  [] OTHER -> TRUE
      ei     == IF e.op = "THROW" /\ e.a = 0 THEN IdxBy(acts2, LAMBDA a : a.e = e.ip) ELSE 0
      exp2   == IF ei = 0 THEN NoExp
                ELSE IF acts2[ei].ph # "fin" THEN NoExp
                ELSE IF acts2[ei].pend > 0 THEN [k |-> "at", ip |-> acts2[ei].pend]
                ELSE IF acts2[ei].perr THEN [k |-> "throw", ip |-> 0]
                ELSE [k |-> "at", ip |-> e.nx]
      ok4    == e.sp >= 0 /\ e.sp <= StackSize /\ e.fi >= 1 /\ e.fi <= FrameSize
      \* refinement layer: handler count
      r1     == (same /\ ~thr /\ top.last.op = "SETUPTRY") => e.nh = top.last.nh + 1
      r2     == (same /\ top.last.op = "THROW" /\ top.last.a = 0 /\ top.last.nh > 0) => e.nh < top.last.nh
      r3     == (~pushed /\ top.last.op \notin {"SETUPTRY", ""}) => e.nh <= top.last.nh
      r4     == pushed => e.nh = 0
      r5     == e.nh = Len({i \in 1..Len(acts2) : TRUE}) \/ TRUE
      top2   == [top EXCEPT !.acts = acts2, !.exp = exp2,
                            !.last = [op |-> e.op, ip |-> e.ip, nx |-> e.nx, a |-> e.a, nh |-> e.nh]]
  IN /\ fs' = Put(e.vm, [base EXCEPT ![Len(base)] = top2])
     /\ thrown' = thrown \ {e.vm}
     /\ bad' = IF ok0 /\ ok1 /\ okc /\ ok2 /\ ok3 /\ ok4 THEN bad
               ELSE Fail(IF ~ok0 THEN "thrown error was not delivered to the nearest enclosing handler"
                         ELSE IF ~ok1 THEN "try statement left without running its finally exactly once"
                         ELSE IF ~okc THEN "catch block entered without a thrown error, or twice"
                         ELSE IF ~ok2 THEN "finally entered again (or without an open try statement)"
                         ELSE IF ~ok3 THEN "pending outcome did not take effect after finally"
                         ELSE "stack or frame index out of bounds")
     /\ drift' = IF r1 /\ r2 /\ r3 /\ r4 THEN drift ELSE Drift("handler count does not follow the protocol model")
     /\ UNCHANGED tag

Next ==
  /\ l <= Len(Trace)
  /\ l' = l + 1
  /\ LET e == Trace[l] IN
     CASE e.ev = "run.enter" ->
            /\ fs' = Del(e.vm) /\ thrown' = thrown \ {e.vm} /\ tag' = e.tag /\ UNCHANGED <<bad, drift>>
       [] e.ev = "run.exit" ->
            \* a run that ended by return or by an uncaught thrown error has
            \* left every try statement it entered; abort / overflow / fatal
            \* stop the VM in the middle and are exempt
            LET F == Get(e.vm)
                okA == e.kind \in {"ok", "error"} => FramesOK(F)
                \* an error that ends the run had no handler left to go to
                okB == (e.kind = "error" /\ e.vm \in thrown) => Handler(F, Len(F))[1] = 0
                \* a pending error after finally is not turned into a normal end
                okC == (e.kind = "ok" /\ F # <<>>) => F[Len(F)].exp.k # "throw"
            IN
            /\ bad' = IF okA /\ okB /\ okC THEN bad
                      ELSE Fail(IF ~okA THEN "run ended with a try statement whose finally did not run exactly once"
                                ELSE IF ~okB THEN "run ended with an error although a handler was open"
                                ELSE "pending error lost at the end of the run")
            /\ fs' = Del(e.vm) /\ thrown' = thrown \ {e.vm}
            /\ UNCHANGED <<drift, tag>>
       [] e.ev = "throw" ->
            /\ thrown' = thrown \cup {e.vm} /\ UNCHANGED <<fs, bad, drift, tag>>
       [] e.ev = "step" -> StepEv(e)
       [] OTHER -> UNCHANGED <<fs, thrown, bad, drift, tag>>

Spec == Init /\ [][Next]_vars

\* evaluated once, at the end of the trace
Report == l = Len(Trace) + 1 =>
   /\ PrintT(<<"TRACE-RESULT", ToJson([events |-> Len(Trace), bad |-> bad, drift |-> drift])>>)
TraceAccepted == TLCGet("stats").diameter = Len(Trace) + 1
=============================================================================
