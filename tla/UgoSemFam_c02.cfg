CONSTANTS
  Fams = {"closure", "call", "rec", "assign", "destr", "const", "loop", "epi"}
SPECIFICATION Spec
INVARIANTS Modelled Export
