CONSTANTS
  Fams = {"closure", "call", "rec", "assign", "destr", "const", "loop", "epi", "catchvar", "shadow"}
SPECIFICATION Spec
INVARIANTS Modelled Export
