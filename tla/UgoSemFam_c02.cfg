CONSTANTS
  Fams = {"closure", "call", "rec", "assign", "destr", "const", "loop"}
SPECIFICATION Spec
INVARIANTS Modelled Export
