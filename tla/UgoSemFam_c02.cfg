CONSTANTS
  Fams = {"closure", "call", "rec", "assign", "destr", "const", "loop", "epi", "catchvar"}
SPECIFICATION Spec
INVARIANTS Modelled Export
