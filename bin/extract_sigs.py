#!/usr/bin/env python3
"""Authoring-time tool: extracts arity of every documented callable from /repo/docs into tla/UgoCallSigs.tla
(and a JSON copy for the harness). The output is committed; checks never run this."""
import re, json, sys
D = "/repo/docs/"
sigs = {}
def arity(params):
    params = params.strip()
    if not params:
        return 0, 0
    opt = 0
    # optional part in brackets: "arrayLike [, ...args]"
    m = re.search(r"\[(.*)\]", params)
    variadic = "..." in params
    req = re.sub(r"\[.*\]", "", params)
    nreq = len([p for p in split(req) if p.strip()])
    nopt = len([p for p in split(m.group(1)) if p.strip()]) if m else 0
    if variadic:
        # a variadic parameter counts for zero or more
        if "..." in req:
            nreq -= 1
        else:
            nopt -= 1
        return nreq, -1
    return nreq, nreq + nopt
def split(s):
    out, depth, cur = [], 0, ""
    for ch in s:
        if ch in "([": depth += 1
        if ch in ")]": depth -= 1
        if ch == "," and depth == 0:
            out.append(cur); cur = ""
        else:
            cur += ch
    out.append(cur)
    return out
for line in open(D + "builtins.md"):
    m = re.match(r"^> `([A-Za-z_]\w*)\((.*)\)`\s*$", line)
    if m:
        sigs.setdefault("builtin." + m.group(1), arity(m.group(2)))
for mod in ("strings", "fmt", "json", "time"):
    for line in open(D + "stdlib-%s.md" % mod):
        m = re.match(r"^`([A-Z]\w*)\((.*)\)\s*->\s*.*`\s*$", line.strip())
        if m:
            sigs.setdefault("%s.%s" % (mod, m.group(1)), arity(m.group(2)))
for line in open(D + "stdlib-time.md"):
    m = re.match(r"^\|\.([A-Z]\w*)\((.*?)\)\s*\|", line)
    if m:
        sigs.setdefault("time.Time." + m.group(1), arity(m.group(2)))
json.dump({k: list(v) for k, v in sorted(sigs.items())}, open("/verif/tla/UgoCallSigs.json", "w"), indent=0)
with open("/verif/tla/UgoCallSigs.tla", "w") as f:
    f.write("---------------------------- MODULE UgoCallSigs ----------------------------\n")
    f.write("EXTENDS Integers\n(* Arity of every documented callable: <<name, min, max>>, max = -1 for variadic.\n   Extracted from docs/builtins.md and docs/stdlib-*.md by bin/extract_sigs.py at authoring time. *)\n")
    f.write("Sigs == <<\n")
    f.write(",\n".join('  <<"%s", %d, %d>>' % (k, v[0], v[1]) for k, v in sorted(sigs.items())))
    f.write("\n>>\n=============================================================================\n")
print(len(sigs), "signatures")
