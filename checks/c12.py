"""C12: a module is loaded once per run and every import sees the same object (UgoSem import semantics, family mod)."""
import json, os
from checks import semcommon
from lib import vlib

RULE = ("programs: 12 import graphs over 3 source modules (independent, edge, diamond, chain, fan-out, cycles of length 1/2/3, unknown "
        "module; a chain and cycles of length 2 and 3 whose import expressions stand inside function literals of the modules) x 14 import-site shapes in the main script (a builtin module whose nested and top-level values are changed in place, twice at top level, through a function called twice, in a taken / untaken "
        "branch and a loop, only inside an uncalled function, diamond probes writing through one path and reading through another); "
        "the reference semantics gives the load log, the probe values and whether the compiler must refuse; replay x optimizer on/off "
        "x encode/decode round trip x second run on the same VM x run of a second VM on the same Bytecode (the first run must be invisible to it); non-trivial = graphs with at least one edge")

def strip_loads(obs):
    try:
        o = json.loads(obs)
    except ValueError:
        return obs
    o[1] = [e for e in o[1] if not (isinstance(e, dict) and str(e.get("v", "")).startswith("load:"))]
    return json.dumps(o, sort_keys=True)

def run(ctx):
    out = ctx.path("c12.ndjson")
    ctx.tlc("UgoSemFam", "UgoSemFam_c12", env=dict(OUT=out), timeout=2400, name="c12")
    res = ctx.path("c12-res.ndjson")
    cfgs = (["default", "noopt", "default+rt", "noopt+twice", "default+vm2", "noopt+rt+vm2"] if ctx.quick else
            ["default", "noopt", "limit1", "default+rt", "noopt+rt", "default+twice", "noopt+twice", "default+rt+twice", "default+vm2", "noopt+vm2", "default+rt+vm2", "noopt+rt+vm2"])
    marker = ctx.path("c12-marker.json")
    p = ctx.vh("sem", out, res, ",".join(cfgs), env=dict(VH_SEM_MARKER=marker), check=False)
    if p.returncode != 0:
        # the replayer did not survive a case: an import cycle the compiler follows without end ends in a fatal
        # stack overflow inside the compiler, which no recover can stop - that is the code's behaviour, not the harness's
        err = p.stderr or ""
        if ("stack overflow" in err or "stack exceeds" in err) and "ugo.(*Compiler)" in err and os.path.exists(marker):
            m = json.load(open(marker))
            ctx.violation("crash|" + vlib.sha(json.dumps(m["id"], sort_keys=True)),
                          "%s: the compiler recursed until the process died (fatal stack overflow in ugo.(*Compiler)) instead of reporting an error\n%s" % (json.dumps(m["id"]), m["src"]),
                          dict(kind="sem", id=m["id"], src=m["src"], want="a compile error"))
        else:
            raise vlib.Inconclusive("harness sem failed rc=%d:\n%s" % (p.returncode, err[-3000:]))
    n = 0
    if p.returncode != 0:
        rows = []       # whatever the replayer wrote before it died (the last line may be cut short)
        if os.path.exists(res):
            for line in open(res):
                try:
                    rows.append(json.loads(line))
                except ValueError:
                    pass
    else:
        rows = vlib.read_ndjson(res)
    for r in rows:
        n += 1
        ctx.evaluations += len(r["got"])
        key = vlib.sha(json.dumps(r["id"], sort_keys=True))
        if r["id"]["g"] != 1:
            ctx.nontrivial.add(key)
        ctx.traces_validated += 1
        if n % 9 == 1:
            ctx.sample(dict(id=r["id"], src=r["src"], must_refuse=r["modrefused"], expected=r["want"]))
        bad = {}
        for k, v in r["got"].items():
            if r["modrefused"]:
                if not v.startswith("COMPILE:"):
                    bad[k] = "compiled / ran although the import graph has a cycle or an unknown module: " + v[:200]
            elif v != r["want"]:
                # second run on a VM that was not cleared: the module cache is kept, bodies run "at most once"
                if "twice" in k and strip_loads(v) == strip_loads(r["want"]):
                    continue
                bad[k] = v[:400]
        if bad:
            ctx.violation(key, "%s: %s\nexpected %s\n%s" % (json.dumps(r["id"]), json.dumps(bad), r["want"][:400], r["src"]),
                          dict(kind="sem", id=r["id"], src=r["src"], want=r["want"]))
    # many modules: the module index around its operand-width boundaries
    mres = ctx.path("many.ndjson")
    ctx.vh("c12many", mres)
    many = 0
    for r in vlib.read_ndjson(mres):
        if r.get("done"):
            many = r["n"]
            continue
        ctx.violation("many:%d:%s:%s" % (r["n"], r["noopt"], r["rt"]), "script importing %d modules (noopt=%s, round trip=%s): %s" % (r["n"], r["noopt"], r["rt"], r["what"]), r)
    if many == 0:
        raise vlib.Inconclusive("no many-module script ran")
    ctx.evaluations += many
    ctx.cov["many_module_scripts"] = many
    # modules delivered by an importer with canonical names (file importer over an in-memory tree): relative names,
    # two spellings of one file, cycles written with relative names
    fres = ctx.path("modfiles.ndjson")
    ctx.vh("modfiles", fres, timeout=900)
    nfiles = 0
    for r in vlib.read_ndjson(fres):
        if r.get("done"):
            nfiles = r["n"]
            continue
        ctx.evaluations += 1
        ctx.traces_validated += 1
        ctx.nontrivial.add("files:%s:%s" % (r["name"], r["noopt"]))
        if not r["ok"]:
            ctx.violation("files:%s:%s" % (r["name"], r["noopt"]), "module layout %s (noopt=%s): %s\n%s" % (r["name"], r["noopt"], r["what"], json.dumps(r.get("files"), indent=1)),
                          dict(kind="sem", id=dict(layout=r["name"], noopt=r["noopt"]), src=json.dumps(r.get("files"), indent=1), want="see the layout's expectation in harness/cmd/vh/c12.go"))
    if nfiles == 0:
        raise vlib.Inconclusive("no module layouts ran")
    ctx.cov["module_layouts"] = nfiles
    if n == 0 and not ctx.violations:
        raise vlib.Inconclusive("no programs")
    ctx.cov["programs"] = n
    ctx.exhaustive = True
    ctx.assumptions += ["module bodies are rendered with a leading log of 'load:<name>' (the reference logs the start of a body)"]

replay = semcommon.replay_sem
