"""C08: many VMs may run one Bytecode concurrently (tla/UgoShare.tla)."""
import json, os, subprocess
from lib import vlib

RULE = ("interleavings: TLC checks Isolation and ModulePrivacy for 2 and 3 VMs at the grain of the instructions that touch the shared "
        "constants and the private module cache (load / store-with-copy / write / read) and exports all 70 complete interleavings of 2 "
        "VMs; each is forced on two real VMs sharing one Bytecode through the per-instruction gate and the results compared with the "
        "solo results; free-running: 16 goroutines x rounds x 11 programs, every round on Bytecode no VM has run before (builtin-module and source-module mutation, closures, "
        "try/finally loops, thrown and runtime errors raised by every VM at another place of the same shared functions and formatted with %+v, Invoker callbacks on pooled child VMs, sprintf) on shared Bytecode in a "
        "binary built with the race detector: a result different from the solo result or a race report is a violation; "
        "non-trivial = interleavings in which the two VMs alternate at least once; four programs calling fmt / strings / json / time module functions with operands of each VM's own")

def run(ctx):
    out = ctx.path("sched.ndjson")
    ctx.tlc("UgoShare", "UgoShare", env=dict(OUT=out), timeout=600, workers=1, name="share-2vm")
    ctx.tlc("UgoShare", "UgoShare3", env=dict(OUT=ctx.path("unused")), timeout=900, name="share-3vm")
    res = ctx.path("gated-res.ndjson")
    ctx.vh("c08gated", out, res)
    n = 0
    for r in vlib.read_ndjson(res):
        if r.get("done"):
            n = r["n"]
            continue
        if r["kind"] == "drift":
            ctx.drift.append(dict(sched=r["sched"], what=r["what"]))
        else:
            ctx.violation("gated|" + vlib.sha(json.dumps(r["sched"])), "%s; schedule %s" % (r["what"], r["sched"]), r)
    if n == 0:
        raise vlib.Inconclusive("no interleavings replayed")
    scheds = vlib.read_tlc_export(out)
    ctx.nontrivial = sum(1 for s in scheds if any(s["sched"][i][0] != s["sched"][i + 1][0] for i in range(1, len(s["sched"]) - 2)))
    for s in scheds[::30]:
        ctx.sample(s)
    # free running under the race detector
    exe = ctx.build_harness(race=True)
    rres = ctx.path("race-res.ndjson")
    rounds = 15 if ctx.quick else 150
    env = dict(vlib.GOENV, GORACE="halt_on_error=0 exitcode=66")
    p = subprocess.run(["timeout", "1500", exe, "c08race", rres, "16", str(rounds)], env=env, stdout=subprocess.PIPE, stderr=subprocess.PIPE, text=True)
    runs = 0
    if os.path.exists(rres):
        for r in vlib.read_ndjson(rres):
            if r.get("done"):
                runs = r["runs"]
                continue
            ctx.violation("race-result|" + vlib.sha(r["what"][:60]), r["what"], r)
    if "DATA RACE" in (p.stderr or ""):
        blocks = p.stderr.split("WARNING: DATA RACE")[1:]
        seen = set()
        for b in blocks:
            lines = [l.strip() for l in b.splitlines() if l.strip().startswith("github.com/ozanh/ugo")]
            if not lines:
                # a race between frames of the harness alone says nothing about the code under test
                raise vlib.Inconclusive("the race detector reports a race inside the harness itself:\n" + "\n".join(b.strip().splitlines()[:12]))
            site = lines[0]
            site = site.replace("()", "")
            if site in seen:
                continue
            seen.add(site)
            ctx.violation("datarace|" + site, "data race reported by the race detector at %s\n%s" % (site, "\n".join(b.strip().splitlines()[:14])), dict(site=site))
    elif p.returncode not in (0,):
        raise vlib.Inconclusive("race run failed rc=%d: %s" % (p.returncode, (p.stderr or "")[-1500:]))
    if runs == 0:
        raise vlib.Inconclusive("race run did not complete: " + (p.stderr or "")[-800:])
    ctx.evaluations = n + runs
    ctx.traces_validated = n
    ctx.cov["free_running_runs"] = runs
    ctx.exhaustive = True
    ctx.assumptions += ["data-race freedom under the Go memory model is observed by the race detector during the spec-driven concurrent runs, not decided by TLA+",
                        "the gate serialises the two VMs completely: one instruction stream moves at a time"]

def replay(ctx, rec):
    print(json.dumps(rec["case"])[:2000])
    return 1
