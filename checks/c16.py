"""C16: runtime errors report the true source locations (tla/UgoTrace.tla)."""
import json
from lib import vlib

RULE = ("programs: call depth 0..MaxDepth x 18 failure kinds (expressions mentioning a literal constant - folded by the compiler -, expressions whose leftmost operand the optimizer makes from a unary operator and a literal, throw, operator, builtin, wrong argument count, index, not callable, for-in over a non-iterable, slice, selector, index / selector assignment) x "
        "call styles (statement, assignment, condition of if / for / ?:, argument, index expression, inside an expression of a return, closure returned from a function, direct recursion, mutual recursion through two call sites, failing statement inside nested blocks, error leaving through finally blocks, "
        "through one call site, function of an imported source module) x k in {0,1,3} prepended blank lines, one statement per line; "
        "expected trace = call-statement line of every active function, outermost first, then the failing line; replayed with the "
        "optimizer on/off and after an encode/decode round trip; every position must lie inside the text of its file; "
        "module styles also with the module delivered from a file starting with an interpreter line through importers.FileImporter / ShebangReadFile (positions are positions in the file); "
        "non-trivial = depth >= 1; recursion through two call sites of one function; functions called by the host through a pooled / unpooled Invoker (the statement calling the Go function is a call statement of the trace)")

def run(ctx):
    out = ctx.path("tr.ndjson")
    ctx.tlc("UgoTrace", "UgoTrace_quick" if ctx.quick else "UgoTrace_thorough", env=dict(OUT=out), timeout=900)
    res = ctx.path("tr-res.ndjson")
    ctx.vh("c16", out, res)
    n = 0
    for r in vlib.read_ndjson(res):
        n += 1
        ctx.evaluations += 4
        key = vlib.sha(json.dumps(r["id"], sort_keys=True))
        if r["id"]["d"] >= 1:
            ctx.nontrivial.add(key)
        ctx.traces_validated += 1
        if n % 60 == 1:
            ctx.sample(dict(id=r["id"], src=r["src"], expected_trace=r["want"]))
        if not r["ok"]:
            ctx.violation(key, "%s: reported %s, expected %s\n%s" % (json.dumps(r["id"]), json.dumps(r["got"])[:500], r["want"], r["src"]),
                          dict(id=r["id"], src=r["src"], want=r["want"], got=r["got"]))
    if n == 0:
        raise vlib.Inconclusive("no programs")
    ctx.cov["programs"] = n
    ctx.exhaustive = True
    ctx.assumptions += ["one record of UgoTrace.tla is rendered to exactly one text line; a header line 'global gl' follows the leading blank lines"]

def replay(ctx, rec):
    print(rec["case"]["src"]); print("expected:", rec["case"]["want"])
    return 1
