"""Shared driver for the UgoSem-based replays (C01, C02, C10, C12, C13)."""
import json
from lib import vlib

def run_sem(ctx, cfg, configs, nontrivial=lambda r: True, label="sem", sample_every=50, extra_env=None, trace_every=0):
    out = ctx.path("%s.ndjson" % label)
    env = dict(OUT=out)
    env.update(extra_env or {})
    ctx.tlc("UgoSemFam", cfg, env=env, timeout=2400, name=label)
    res = ctx.path("%s-res.ndjson" % label)
    henv = None
    if trace_every:
        trace, regs = ctx.path("%s-trace.ndjson" % label), ctx.path("%s-regs.json" % label)
        henv = dict(VERIF_TRACE_OUT=trace + "," + regs, VERIF_TRACE_EVERY=trace_every)
    ctx.vh("sem", out, res, ",".join(configs), env=henv)
    if trace_every:
        from checks import c03
        tv = c03.validate_trace(ctx, trace, regs, label + "-trace")
        ctx.cov["trace_events"] = tv["events"]
        tags = {}
        for r in vlib.read_ndjson(res):
            tags.setdefault(r.get("tag"), r)
        for b in tv["bad"]:
            r = tags.get(b["tag"], {})
            ctx.violation("trace:" + vlib.sha(b["why"] + r.get("src", str(b["tag"]))),
                          "recorded VM trace violates an execution invariant: %s (event %d) in\n%s" % (b["why"], b["at"], r.get("src", "?")),
                          dict(kind="trace", src=r.get("src"), why=b["why"]))
        for d in tv["drift"][:50]:
            ctx.drift.append(dict(trace_tag=d["tag"], why=d["why"]))
    n = 0
    for r in vlib.read_ndjson(res):
        n += 1
        ctx.evaluations += len(r["got"])
        key = vlib.sha(r["src"] + json.dumps(r["id"], sort_keys=True))
        if r["fam"] == "catchvar":
            key = "catchvar:%d" % r["id"]["i"]      # named, so that known_findings.jsonl can list the specific programs
        if nontrivial(r):
            ctx.nontrivial.add(key)
        if not r["ok"]:
            bad = {k: v for k, v in r["got"].items() if v != r["want"]}
            ctx.violation(key, "%s %s: real %s != reference %s\n%s" % (r["fam"], json.dumps(r["id"]), json.dumps(bad)[:600], r["want"][:400], r["src"]),
                          dict(kind="sem", fam=r["fam"], id=r["id"], src=r["src"], want=r["want"], configs=configs))
        ctx.traces_validated += 1
        if n % sample_every == 1:
            ctx.sample(dict(fam=r["fam"], src=r["src"], expected=r["want"]))
    if n == 0:
        raise vlib.Inconclusive("no programs exported by TLC for %s" % cfg)
    ctx.cov.setdefault("programs", 0)
    ctx.cov["programs"] += n
    return n

def replay_sem(ctx, rec):
    c = rec["case"]
    print(c.get("src", ""))
    print("reference:", c.get("want"))
    print("(re-run bin/check %s to regenerate and re-execute the family; the program above is the failing case)" % ctx.pid)
    return 1
