"""C17: the json module produces and accepts exactly standard JSON (tla/UgoJson.tla)."""
import json
from lib import vlib

RULE = ("documents: every symbol string up to MaxLen over a 17-symbol alphabet (structural characters, quote, backslash, letter, "
        "digits, minus, point, exponent, true, null, space, \\u escapes incl. lone surrogates) and every quoted string body up to 5 (thorough 6) string symbols, with the verdict of the TLA+ RFC 8259 recogniser; encoding/json is "
        "evaluated side by side (a disagreement between the two oracles is a spec bug, not a violation); Valid / Unmarshal value / "
        "Compact / Indent compared; trees: every value tree of depth <= 2 over 29 leaf kinds of every uGO type (incl. bytes of 770 / 4097 bytes, a 6000-character string, a 3000-element array, a 400-key map): Marshal must return "
        "an error or valid JSON, for representable trees the bytes of encoding/json and a faithful round trip; the same through the module's functions as a script calls them: MarshalIndent and NoEscape (bytes of encoding/json), Quote / NoQuote (valid JSON or an error), RawMessage bare and nested (the raw bytes embedded); "
        "near-valid documents: 14 valid skeleton documents (members, elements, nesting, white space, numbers, escapes) changed by every single-symbol insertion, deletion and replacement (thorough: every pair of edits); "
        "documents beyond the recogniser (nesting depth around 10000, long / extreme numbers, long strings, escapes, stray bytes): encoding/json alone is the oracle; "
        "non-trivial = documents the recogniser accepts, and all trees; near part with the non-JSON white-space symbols form feed and 0xA0")

def leaves(t):
    return [t[k] for k in ("v", "a", "b") if k in t]

def run(ctx):
    out = ctx.path("docs.ndjson")
    ctx.tlc("UgoJson", "UgoJson_quick" if ctx.quick else "UgoJson_thorough", env=dict(OUT=out), timeout=2400, name="json-docs")
    tout = ctx.path("trees.ndjson")
    ctx.tlc("UgoJson", "UgoJson_trees", env=dict(OUT=tout), timeout=600, name="json-trees")
    sout = ctx.path("strs.ndjson")
    ctx.tlc("UgoJson", "UgoJson_strbody" if ctx.quick else "UgoJson_strbody_t", env=dict(OUT=sout), timeout=1200, name="json-strings")
    nout = ctx.path("near.ndjson")
    ctx.tlc("UgoJson", "UgoJson_near" if ctx.quick else "UgoJson_near_t", env=dict(OUT=nout), timeout=2400, name="json-near")
    ndocs = sum(1 for _ in open(out)) + sum(1 for _ in open(sout)) + sum(1 for _ in open(nout))
    nacc = sum(1 for p_ in (out, sout, nout) for l in open(p_) if 'accept\\":true' in l)
    ntrees = sum(1 for _ in open(tout))
    # documents beyond the recogniser's reach (nesting depth around encoding/json's limit of 10000, long numbers and
    # strings): the property names encoding/json as the reference, it alone is the oracle here
    dout = ctx.path("deep.ndjson")
    with open(dout, "w") as f:
        def put(*parts):
            f.write(json.dumps(dict(k="doc", s=list(parts), accept=False, nospec=True)) + "\n")
        for n in (1, 100, 5000, 9999, 10000, 10001, 10002, 20000):
            put("[" * n, "]" * n)
            put("[" * n, "1", "]" * n)
            put('{"a":' * n, "1", "}" * n)
            put("[" * n, "]" * (n - 1))
            put('[{"a":' * (n // 2), "null", "}]" * (n // 2))
        for num in ("1" * 400, "1e400", "-1e400", "1e-400", "0." + "0" * 400 + "1", "-0", "-0.0", "1E+2", "1e+02", "01", "1.", ".5", "+1", "0x10", "1e", "1e+", "-", "--1",
                    "9223372036854775807", "9223372036854775808", "18446744073709551615", "18446744073709551616", "1.7976931348623157e308", "1.7976931348623159e308", "5e-324", "2e-324"):
            put(num)
            put("[", num, "]")
            put('{"n":', num, "}")
        for st in ('"' + "a" * 70000 + '"', '"' + "\\n" * 5000 + '"', '"' + "\\u00e9" * 3000 + '"', '"\\ud83d\\ude00"', '"\\ude00\\ud83d"', '"\\u12"', '"\\x41"', '"\t"', '"\x7f"', '"\xc3\x28"',
                   "\ufeff[]", "[]\x00", " \t\r\n[ ] \n", "[1,2" + " " * 5000 + "]", "nul", "nulll", "truefalse", "NaN", "Infinity", "'a'", "[1 2]", '{"a" 1}', '{"a":1 "b":2}', '{1:2}', "[,]", "[1,,2]"):
            put(st)
    ndeep = sum(1 for _ in open(dout))
    for label, path in (("docs", out), ("strings", sout), ("near", nout), ("deep", dout), ("trees", tout)):
        res = ctx.path("res-%s.ndjson" % label)
        ctx.vh("c17", path, res)
        for r in vlib.read_ndjson(res):
            if r["kind"] == "specbug":
                raise vlib.Inconclusive("spec and second oracle disagree: %s on %s" % (r["what"], r.get("doc", r.get("tree"))))
            if "tree" in r:
                t = r["tree"]
                if "malformed document" in r["what"]:
                    uns = sorted(set(x for x in leaves(t) if x in ("function", "error")))
                    key = "marshal-malformed:" + "+".join(uns) if uns else "marshal-malformed:" + vlib.sha(json.dumps(t, sort_keys=True))
                else:
                    key = "tree:" + vlib.sha(json.dumps(t, sort_keys=True) + r["what"][:30])
                ctx.violation(key, "Marshal of %s: %s" % (json.dumps(t), r["what"]), dict(tree=t, what=r["what"]))
            else:
                ctx.violation("doc:" + vlib.sha(r["doc"] + r["what"][:20]), "document %r: %s" % (r["doc"], r["what"]), dict(doc=r["doc"], what=r["what"]))
    ndocs += ndeep
    ctx.evaluations = ndocs + ntrees
    ctx.traces_validated = ndocs + ntrees
    ctx.nontrivial = nacc + ntrees
    ctx.exhaustive = True
    ctx.cov.update(documents=ndocs, accepted_documents=nacc, trees=ntrees)
    ctx.sample(dict(doc='{"a":[1,-0.1e1,true,null]}', note="documents are concatenations of alphabet symbols, e.g. { q a q : [ 1 ] }"))
    ctx.sample(dict(tree=dict(k="map", a="s_html", b="umax"), note="Marshal must equal encoding/json.Marshal(map[string]any{...})"))
    ctx.assumptions += ["encoding/json is the reference implementation of RFC 8259 named by the property", "leaf catalogue stands for 'all values'"]

def replay(ctx, rec):
    print(json.dumps(rec["case"]))
    return 1
