"""C04: encoding bytecode and decoding it again preserves behaviour."""
import json
from checks import semcommon
from lib import vlib

RULE = ("programs: the whole UgoSem corpus (closures, calls, recursion, assignment, destructuring, const/iota, loops, episode "
        "histories, import graphs, host-callback histories) run directly, after one and after two encode/decode rounds and compared "
        "with the TLA+ reference outcome; constant kinds: 32 constant tokens (extreme ints, NaN / +-Inf / -0 / denormal floats, "
        "chars incl. \\x00 and U+10FFFF, empty / non-UTF-8 / NUL strings, bytes, nested literals) x 9 positions (main, function "
        "constant, nested function, source module, literal element, map value, argument, captured variable, next to a builtin "
        "module with every value type) compared bit-exactly; non-trivial = every case; held bytes: what MarshalBinary returned is decoded only after three further programs were encoded")

def run(ctx):
    cfgs = ["default", "default+rt", "default+rt+rt"] if ctx.quick else ["default", "noopt", "default+rt", "noopt+rt", "default+rt+rt"]
    for cfg in ("UgoSemFam_c02", "UgoSemFam_c12", "UgoSemFam_c14"):
        out = ctx.path(cfg + ".ndjson")
        ctx.tlc("UgoSemFam", cfg, env=dict(OUT=out), timeout=2400, name=cfg)
        res = ctx.path(cfg + "-res.ndjson")
        ctx.vh("sem", out, res, ",".join(cfgs))
        n = 0
        for r in vlib.read_ndjson(res):
            n += 1
            ctx.evaluations += len(r["got"])
            key = vlib.sha(r["src"] + json.dumps(r["id"], sort_keys=True))
            ctx.nontrivial.add(key)
            ctx.traces_validated += 1
            if r.get("modrefused"):
                continue
            # the property compares the decoded program with the original one: where the direct run itself departs
            # from the reference semantics (that is C02's business, see its known finding) the direct run is the yardstick
            want = r["want"]
            direct = r["got"].get("default")
            if direct is not None and direct != want and not direct.startswith(("COMPILE", "PANIC")):
                want = direct
            bad = {k: v for k, v in r["got"].items() if v != want}
            if bad:
                ctx.violation(key, "%s: %s != reference %s\n%s" % (json.dumps(r["id"]), json.dumps(bad)[:500], r["want"][:300], r["src"]),
                              dict(kind="sem", id=r["id"], src=r["src"], want=r["want"]))
            if n % 500 == 1:
                ctx.sample(dict(id=r["id"], src=r["src"], expected=r["want"]))
    out = ctx.path("const.ndjson")
    ctx.tlc("UgoConst", "UgoConst", env=dict(OUT=out), timeout=600)
    res = ctx.path("const-res.ndjson")
    ctx.vh("c04", out, res)
    m = 0
    for r in vlib.read_ndjson(res):
        if "skip" in r:
            ctx.drift.append(dict(tok=r["tok"], pos=r["pos"], what=r["skip"]))
            continue
        m += 1
        ctx.evaluations += 6
        ctx.traces_validated += 1
        ctx.nontrivial.add("const:%s:%s" % (r["tok"], r["pos"]))
        if not r["ok"]:
            ctx.violation("const:%s:%s" % (r["tok"], r["pos"]), "constant %s at %s: %s\n%s" % (r["tok"], r["pos"], r["what"], r["src"]), r)
        if m % 90 == 1:
            ctx.sample(dict(token=r["tok"], position=r["pos"], src=r["src"], direct=r.get("direct")))
    ctx.cov["constant_cases"] = m
    # error source positions after decoding: the stack-trace programs of UgoTrace, decoded configurations only
    tout = ctx.path("tr.ndjson")
    ctx.tlc("UgoTrace", "UgoTrace_quick", env=dict(OUT=tout), timeout=600, name="positions")
    tres = ctx.path("tr-res.ndjson")
    ctx.vh("c16", tout, tres)
    for r in vlib.read_ndjson(tres):
        ctx.evaluations += 2
        ctx.traces_validated += 1
        bad = {k: v for k, v in r["got"].items() if "+rt" in k and v != r["want"] and r["got"].get(k.replace("+rt", "")) == r["want"]}
        if bad:
            ctx.violation("pos:" + vlib.sha(json.dumps(r["id"], sort_keys=True)), "%s: positions after encode/decode %s, direct run %s\n%s" % (json.dumps(r["id"]), json.dumps(bad)[:300], r["want"], r["src"]),
                          dict(id=r["id"], src=r["src"], want=r["want"], got=bad))
    ctx.exhaustive = True
    ctx.assumptions += ["behavioural equivalence is judged on outcome, log and globals (sem corpus) and on bit-exact returned values (constants)",
                        "error source positions after a round trip: the UgoTrace programs are replayed here too and a difference between the decoded and the direct run is charged to C04"]

replay = semcommon.replay_sem
