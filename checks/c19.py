"""C19: builtin and standard-library functions are total (tla/UgoCall.tla + UgoCallSigs.tla)."""
import json, subprocess
from lib import vlib

RULE = ("calls: every exported callable of the builtins and of the fmt, json, strings and time modules x every argument tuple "
        "TLC enumerates over a 29-value boundary pool (incl. a callable that fails returning no object, JSON text with a stray closing bracket) of every type (all tuples of length <= 2, and of length 3-4 with at most two "
        "positions differing from a small int; thorough: all triples), called through a real VM without panic recovery, each call "
        "under a 2 s watchdog in a restartable worker; a panic, a hang or a dead worker is a violation; the documented arity "
        "(UgoCallSigs, extracted from docs) is compared and reported as drift; non-trivial = calls whose argument count is "
        "within the documented arity; the pool's non-ASCII string has 4 bytes and 2 characters (a pool integer lies between)")

def run(ctx):
    out = ctx.path("tuples.ndjson")
    ctx.tlc("UgoCall", "UgoCall_quick" if ctx.quick else "UgoCall_thorough", env=dict(OUT=out), timeout=1800)
    res, marker = ctx.path("res.ndjson"), ctx.path("marker")
    exe = ctx.build_harness()
    sigs = vlib.TLA_DIR + "/UgoCallSigs.json"
    start, crashes = 0, 0
    while True:
        p = subprocess.run(["timeout", "3000", exe, "c19", out, res, marker, sigs, str(start)], env=dict(vlib.GOENV),
                           stdout=subprocess.DEVNULL, stderr=subprocess.PIPE, text=True)
        if p.returncode == 0:
            break
        if p.returncode == 124:
            raise vlib.Inconclusive("c19 worker timeout")
        try:
            k = int(open(marker).read())
        except Exception:
            raise vlib.Inconclusive("c19 worker failed: " + p.stderr[-1500:])
        crashes += 1
        with open(res, "a") as f:
            f.write(json.dumps(dict(n=k, callable="?", args=[], what="worker process died near call %d: %s" % (k, p.stderr.strip()[:200]))) + "\n")
        start = k + 64
        if crashes > 40:
            break
    total, stats = 0, {}
    for r in vlib.read_ndjson(res):
        if r.get("done"):
            total, stats = r["calls"], r["stats"]
            ctx.cov["callables"] = r["callables"]
            continue
        if r["what"].startswith("documented arity"):
            if len(ctx.drift) < 5000:
                ctx.drift.append(dict(callable=r["callable"], what=r["what"]))
            continue
        cls = r["what"].split(":")[0]
        key = "%s|%s|%s" % (r["callable"], cls, ",".join(map(str, r["args"])))
        ctx.violation(key, "%s(%s): %s" % (r["callable"], r["args"], r["what"]), r)
    if total == 0:
        raise vlib.Inconclusive("no calls executed")
    ctx.evaluations = total
    ctx.traces_validated = total
    ctx.nontrivial = stats.get("value", 0) + stats.get("error", 0) // 4
    ctx.cov["results"] = stats
    ctx.exhaustive = True
    ctx.sample(dict(callable="strings.PadLeft", args=[1, 6], note="args are 1-based indexes into the value pool (1 undefined, 6 = 1<<62)"))
    ctx.sample(dict(callable="builtin.repeat", args=[11, 6]))
    ctx.assumptions += ["callables are invoked from a script on a VM (Call.VM() is never nil)", "stdin is /dev/null and PrintWriter is discarded during the calls"]

def replay(ctx, rec):
    print(json.dumps(rec["case"]))
    return 1
