"""C07: a run's outcome depends only on bytecode, globals and arguments (tla/UgoLife.tla)."""
import json, threading
from lib import vlib

RULE = ("histories: every sequence of up to 2 (thorough 3) runs over 24 scripts covering every termination kind (return, uncaught "
        "error through nested finally blocks, recovered Go panic, value-stack overflow, frame overflow, abort inside a nested call, "
        "statement-position recursion ending in a throw of its own or of a callee one or two frames above it, module state change (source module, bytes / sync-map / array object modules, nested values of a builtin module), closures, error raised inside finally, error inside an "
        "Invoker callback, deep recursion) x {nothing, Clear, SetBytecode, Clear+SetBytecode} x 14 residue-sensitive probes (incl. runs with nil globals: what a run stored in the globals the VM provided is gone in the next run; incl. parameters that must be undefined after a run that had arguments); TLC checks "
        "NoResidueRead on the component model and exports each history; the harness replays it on one real VM and compares the "
        "re-run of the last script and the probe with a new VM, and the canonical dump of every Bytecode before and after; "
        "histories with a panicking script also on a VM without panic recovery (the host recovers): every later operation returns, the probe equals a new VM's; "
        "non-trivial = histories whose last run did not end by a plain return")

def run(ctx):
    out = ctx.path("hist.ndjson")
    ctx.tlc("UgoLife", "UgoLife_quick" if ctx.quick else "UgoLife_thorough", env=dict(OUT=out), timeout=1800)
    # the replay is single-P on purpose (the process-wide pool then hands back the child VM released last);
    # the histories are independent, so they are spread over several such processes
    lines = open(out).read().splitlines()
    nproc = 8
    parts = []
    for k in range(nproc):
        part = ctx.path("hist-%d.ndjson" % k)
        open(part, "w").write("\n".join(lines[k::nproc]) + "\n")
        parts.append((part, ctx.path("hist-res-%d.ndjson" % k)))
    ctx.build_harness()
    errs = []
    def work(pr):
        try:
            ctx.vh("c07", pr[0], pr[1], timeout=3000)
        except Exception as e:   # reported below, on the main thread
            errs.append(e)
    ths = [threading.Thread(target=work, args=(pr,)) for pr in parts]
    for t in ths:
        t.start()
    for t in ths:
        t.join()
    if errs:
        raise errs[0]
    n = 0
    for _, res in parts:
        for r in vlib.read_ndjson(res):
            if r.get("done"):
                n += r["n"]
                ctx.cov["fresh_outcomes"] = {k: v[:80] for k, v in r["fresh"].items()}
                continue
            ctx.violation(vlib.sha(json.dumps(r["history"], sort_keys=True) + r["what"][:40]), "%s: %s" % (json.dumps(r["history"]), r["what"]), r)
    if n == 0:
        raise vlib.Inconclusive("no histories replayed")
    hs = vlib.read_tlc_export(out)
    ctx.evaluations = n
    ctx.traces_validated = n
    ctx.nontrivial = sum(1 for h in hs if h["runs"][-1] not in (1, 9, 12))
    ctx.exhaustive = True
    for h in hs[::1200]:
        ctx.sample(h)
    ctx.assumptions += ["the harness stops a never-ending script by repeating Abort until Run returns",
                        "the module cache surviving a re-run of the same Bytecode without Clear is by design (REPL) and exempt"]

def replay(ctx, rec):
    print(json.dumps(rec["case"])[:2000])
    return 1
