"""C02: compiled execution follows the documented source-level semantics (tla/UgoSem.tla, UgoSemFam.tla)."""
from checks import semcommon, c03
from lib import vlib

RULE = ("programs: every program of the closure / call (params x variadic x args x spread) / recursion (tail, non-tail, "
        "statement position, in try, accumulator) / assignment-order / destructuring / const-iota / loop-control families and every sequence of 2 (quick: selected 3, thorough: all 3) feature episodes out of 14, each optionally one frame deeper, of "
        "tla/UgoSemFam.tla, expected outcome + side-effect log computed by the TLA+ reference semantics, run on the real compiler+VM "
        "with the optimizer on, off and at budget 1; per-instruction traces of the runs validated by UgoVMTrace.tla; "
        "scope structures: every valid arrangement of up to two declarations / assignments / reads of a, b and the builtin name len before, inside (with an optional statement at the intermediate level) and after one container out of 7 (block, function, loop body, block in function, function in block, function in function, function called twice); "
        "non-trivial = every program (each exercises one documented rule); loops: continue / break of the outer loop written after a complete inner loop (two and three loops deep, for / for-in, in a function)")

def run(ctx):
    semcommon.run_sem(ctx, "UgoSemFam_c02" if ctx.quick else "UgoSemFam_c02t", ["default", "noopt"] if ctx.quick else ["default", "noopt", "limit1"], label="c02", sample_every=200, trace_every=2 if ctx.quick else 4)
    # scope structures, combinatorially (all valid arrangements of declarations / assignments / reads of a, b and the
    # builtin name len around and inside 7 container shapes)
    semcommon.run_sem(ctx, "UgoSemFam_scope", ["default", "noopt"], label="scope", sample_every=5000)
    ctx.exhaustive = True
    ctx.assumptions += ["renderer harness/cmd/vh/sem.go maps the AST to uGO source faithfully",
                        "UgoSem.tla is the documented meaning (docs/tutorial.md); values are small ints, strings, bools, arrays, maps, closures"]

replay = semcommon.replay_sem
