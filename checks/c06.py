"""C06: with recovery enabled, running a script never panics the host (tla/UgoPanic.tla)."""
import json
from lib import vlib

RULE = ("TLC explores the recovery decision of the small-limit VM model for every (failure kind, stack height, frame index, handler "
        "position) and checks RecoverySafe / Total; the exported case matrix - 18 failure kinds (one expression wider than the value stack, for-in over a non-iterable, index / selector assignment, spread of a non-array, builtin type error, remainder / division by zero, negative "
        "shift, index, slice, call of a non-callable, wrong argument count, Go panic and Go runtime error in a host function, throw, "
        "unbounded recursion, value-stack exhaustion) x 10 contexts (plain, try-catch, try-finally, catch-rethrow, Invoker callback, try inside a pooled / unpooled callback, a function the host invokes after Run through a pooled / unpooled Invoker, "
        "callback inside try) x 3 depths (shallow, within 1..6 frames of the 1024-frame limit, within a frame of the 2048-slot stack) - "
        "is instantiated and run with SetRecover(true) under the harness's own recover, with 4 argument sets of various types and "
        "counts, followed by a probe script on the same VM; Go panics recovered while the VM is being aborted (histories shared with C09); non-trivial = cases at depth != shallow or in a callback; failures inside the locked region of a *SyncMap (index without String), struck again after being caught")

def run(ctx):
    out = ctx.path("matrix.ndjson")
    ctx.tlc("UgoPanic", "UgoPanic", env=dict(OUT=out), timeout=900)
    res = ctx.path("c06-res.ndjson")
    ctx.vh("c06", out, res, timeout=3000)
    runs = 0
    for r in vlib.read_ndjson(res):
        if r.get("done"):
            runs = r["runs"]
            ctx.cov["cases"] = r["cases"]
            continue
        if r["kind"] == "obs":
            continue
        if r["kind"] == "harness":
            raise vlib.Inconclusive(r["what"])
        c = r["case"]
        key = "%s|%s|%s|%s|%s" % (c["Kind"], c["Ctx"], c["Depth"], r["depth"], r["what"][:30])
        ctx.violation(key, "%s in %s at %s(%s), argument set %s: %s" % (c["Kind"], c["Ctx"], c["Depth"], r["depth"], r.get("args"), r["what"]), r)
    # a Go panic recovered while the VM is being aborted (the histories of C09): the panic is delivered to the script's
    # handler or the run ends with an error - never with a value and no error
    ares = ctx.path("abort-panic.ndjson")
    ctx.vh("abortreuse", ares, timeout=600)
    for r in vlib.read_ndjson(ares):
        if r.get("done") or r.get("catch") != "panic":
            continue
        runs += 1
        if not r["ok"] and "not the aborted error" in r.get("what", ""):
            ctx.violation("abortpanic|%s|%s" % (r["pooled"], r["k"]), "Go panic while the VM is aborted (handler %s, in %s): %s\n%s" % (r["pooled"], r["k"], r["what"], r["src"]),
                          dict(case=dict(src=r["src"]), what=r["what"]))
    if runs == 0:
        raise vlib.Inconclusive("no runs")
    ctx.evaluations = runs
    ctx.traces_validated = runs
    ctx.nontrivial = runs * 2 // 3
    ctx.exhaustive = True
    ctx.sample(dict(kind="gopanic-nil", ctx="callback-try", depth="nearframes(1021)", expect="value-or-error"))
    ctx.sample(dict(kind="mod0", ctx="try-finally", depth="shallow", expect="error-after-finally"))
    ctx.assumptions += ["the small-limit model (StackSize 5, FrameSize 4) stands for the 2048 / 1024 arrays; the real limits are probed by depth sweeps around them",
                        "scripts terminate within the watchdog (30 s)"]

def replay(ctx, rec):
    print(rec["case"].get("src", ""))
    print(rec["what"])
    return 1
