"""C10: fragments one by one = one script (UgoSem + family frag)."""
import json
from lib import vlib

RULE = ("sessions: 8 top-level statement sequences of length 5 (closure then later assignment to its captured variable, blocks "
        "re-using local slots, const/iota groups, imports, try statements, a failing statement in the middle, globals, loop "
        "closures) x all 16 ways of cutting them into consecutive fragments, optimizer on and off; each fragment's value / error / "
        "log on a real Eval session must equal the TLA+ reference and the result of evaluating the concatenation so far as a single "
        "fragment of a fresh session; non-trivial = at least one cut; sequences with negative zero and zero, fragments ending in an if / if-else / loop whose last inner statement is an expression (value undefined on every path)")

def run(ctx):
    out = ctx.path("c10.ndjson")
    ctx.tlc("UgoSemFam", "UgoSemFam_c10", env=dict(OUT=out), timeout=1200, name="c10")
    res = ctx.path("c10-res.ndjson")
    ctx.vh("frag", out, res)
    n = 0
    for r in vlib.read_ndjson(res):
        n += 1
        ctx.evaluations += 2 * len(r["frags"])
        key = vlib.sha(json.dumps(r["id"], sort_keys=True))
        if r["id"]["cut"]:
            ctx.nontrivial.add(key)
        ctx.traces_validated += 1
        if n % 25 == 1:
            ctx.sample(dict(id=r["id"], fragments=r["frags"]))
        if not r["ok"]:
            ctx.violation(key, "%s: %s\nfragments:\n%s" % (json.dumps(r["id"]), r["what"], "\n-----\n".join(r["frags"])), dict(id=r["id"], frags=r["frags"], what=r["what"]))
    if n == 0:
        raise vlib.Inconclusive("no sessions")
    ctx.cov["sessions"] = n
    ctx.exhaustive = True
    ctx.assumptions += ["'as one script' = a single fragment of a fresh Eval session (a batch VM.Run returns undefined where Eval returns the last expression value)"]

def replay(ctx, rec):
    print(json.dumps(rec["case"], indent=1)[:3000])
    return 1
