"""C03: finally exactly once, pending outcome survives, nearest catch."""
import json, os
from lib import vlib

RULE = ("programs: every program of the bounded try/catch/finally x loop x call grammar of tla/UgoTry.tla "
        "(exhaustive; Family d1 quick, d2 thorough), each run on the real VM in 2 optimizer modes and compared with the "
        "reference semantics; non-trivial = some try statement is left by return/break/continue/throw/runtime error; "
        "traces: per-instruction traces of the real VM validated by tla/UgoVMTrace.tla")

def exits(b):
    for s in b:
        if s["k"] in ("ret", "brk", "cnt", "thr", "rte"):
            return True
        if s["k"] in ("loop", "call") and exits(s.get("b", [])):
            return True
        if s["k"] == "try" and (exits(s.get("b", [])) or exits(s.get("c", [])) or exits(s.get("f", []))):
            return True
    return False

def nontrivial(b):
    for s in b:
        if s["k"] == "try" and (exits(s.get("b", [])) or exits(s.get("c", [])) or exits(s.get("f", []))):
            return True
        for key in ("b", "c", "f"):
            if isinstance(s.get(key), list) and nontrivial(s[key]):
                return True
    return False

def validate_trace(ctx, trace, regs, name, tagmap=None, pid="C03"):
    """TLC trace validation; returns (events, bad, drift)."""
    r = ctx.tlc("UgoVMTrace", "UgoVMTrace", env=dict(TRACE=trace, REGS=regs), workers=1, name=name,
                timeout=3000, deadlock=True, check_ok=False)
    out = r["out"]
    line = [x for x in out.splitlines() if "TRACE-RESULT" in x]
    if not line or "Model checking completed. No error has been found." not in out:
        raise vlib.Inconclusive("trace validation did not complete (%s):\n%s" % (name, out[-2500:]))
    s = line[-1]
    s = s[s.index('"{'):s.rindex('"') + 1]
    res = json.loads(json.loads(s))
    return res

def repo_suite_traces(ctx):
    """code -> spec over executions nobody generated: the repository's own root-package tests, run with the verif
    tag and UGO_VERIF_TRACE, validated against the same invariants (finds violations the tests' assertions cannot see;
    on the unchanged tree it is the standing false-alarm test of the invariants)."""
    import subprocess, glob
    prefix = ctx.path("suite")
    env = dict(vlib.GOENV, UGO_VERIF_TRACE=prefix)
    p = subprocess.run(["go", "test", "-tags", "verif", "-vet=off", "-count=1", "-timeout", "20m", "."], cwd=vlib.REPO, env=env,
                       stdout=subprocess.PIPE, stderr=subprocess.STDOUT, text=True)
    files = glob.glob(prefix + ".*.ndjson")
    if not files:
        ctx.drift.append(dict(what="repository suite produced no trace (tests rc=%d)" % p.returncode))
        return
    regs, nfn = [], 0
    trace = ctx.path("suite-trace.ndjson")
    tag = 0
    with open(trace, "w") as out:
        for f in files:
            for line in open(f):
                e = json.loads(line)
                if e["ev"] == "fn":
                    while len(regs) < e["fn"]:
                        regs.append([])
                    regs[e["fn"] - 1] = e["regs"]
                    continue
                if e["ev"] == "run.enter":
                    tag += 1
                if e["ev"] in ("run.enter", "run.exit", "throw"):
                    e["tag"] = tag
                    e.setdefault("kind", "")
                out.write(json.dumps(e) + "\n")
            os.remove(f)
    rp = ctx.path("suite-regs.json")
    json.dump(regs, open(rp, "w"))
    tv = validate_trace(ctx, trace, rp, "trace-repo-suite")
    ctx.cov["repo_suite_trace_events"] = tv["events"]
    ctx.cov["repo_suite_runs"] = tag
    for b in tv["bad"]:
        ctx.violation("suite-trace:" + vlib.sha(b["why"] + str(b["tag"])),
                      "a VM run of the repository's own test suite violates a C03 invariant: %s (run %d, event %d)" % (b["why"], b["tag"], b["at"]),
                      dict(kind="suite", why=b["why"], run=b["tag"]))
    ctx.traces_validated += tag

def run(ctx):
    quick = ctx.quick
    out = ctx.path("try.ndjson")
    ctx.tlc("UgoTry", "UgoTry_quick" if quick else "UgoTry_thorough", env=dict(OUT=out), timeout=1500)
    ctx.exhaustive = True
    res, trace, regs = ctx.path("res.ndjson"), ctx.path("trace.ndjson"), ctx.path("regs.json")
    ctx.vh("c03", out, res, trace, regs, env=dict(VERIF_TRACE_EVERY=6 if quick else 40))
    tagsrc = {}
    n = 0
    for r in vlib.read_ndjson(res):
        n += 1
        ctx.evaluations += len(r.get("real") or [])
        key = vlib.sha(r["src"])
        if nontrivial(r["prog"]):
            ctx.nontrivial.add(key)
        if r.get("traced"):
            tagsrc[r["tag"]] = r
        if "compile_err" in r:
            ctx.violation(key, "generated program does not compile: %s" % r["compile_err"], r)
            continue
        bad = [x for x in r["real"] if x != r["ref"]]
        if bad:
            ctx.violation(key, "real %s != reference %s for\n%s" % (bad[0], r["ref"], r["src"]), dict(kind="try", src=r["src"], ref=r["ref"]))
        elif r["real"][0] != r["model"]:
            ctx.drift.append(dict(src=r["src"], real=r["real"][0], model=r["model"]))
        ctx.traces_validated += 1
        if n % 500 == 1:
            ctx.sample(dict(src=r["src"], expected=r["ref"], real=r["real"]))
    if n == 0:
        raise vlib.Inconclusive("no programs exported by TLC")
    tv = validate_trace(ctx, trace, regs, "trace-replays")
    ctx.cov["trace_events"] = tv["events"]
    ctx.cov["traced_runs"] = len(tagsrc)
    for b in tv["bad"]:
        r = tagsrc.get(b["tag"], {})
        ctx.violation("trace:" + vlib.sha(b["why"] + r.get("src", str(b["tag"]))),
                      "recorded VM trace violates C03 invariant: %s (event %d) in\n%s" % (b["why"], b["at"], r.get("src", "?")),
                      dict(kind="try", src=r.get("src"), why=b["why"]))
    for d in tv["drift"]:
        ctx.drift.append(dict(trace_tag=d["tag"], why=d["why"]))
    if not quick:
        repo_suite_traces(ctx)
    ctx.assumptions += ["renderer harness/cmd/vh/c03.go maps AST to uGO source faithfully",
                        "reference semantics XB/XS of UgoTry.tla is the documented meaning (docs/error-handling.md)"]

def replay(ctx, rec):
    c = rec["case"]
    p = ctx.path("one.ugo")
    open(p, "w").write(c["src"])
    r = ctx.vh("trysrc", p)
    print(r.stdout)
    real = r.stdout.strip().splitlines()
    ok = all(x == c.get("ref") for x in real) if c.get("ref") else None
    print("reference:", c.get("ref"))
    return 0 if ok else 1
