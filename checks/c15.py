"""C15: operator laws and documented numeric semantics (tla/UgoOps.tla on the recorded real table)."""
import json
from lib import vlib

RULE = ("the harness records T[a, op, b] for all ordered pairs of a boundary domain of every built-in type x 17 binary operators "
        "(script-level and Object.BinaryOp/Equal from Go) and 4 unary operators; TLC evaluates, one state per cell, the laws "
        "(== symmetric, != negation, trichotomy, <= definition, < / > swap) and every cell the documentation determines "
        "(conversion type matrix, small-integer values via Integers/Bitwise, ZeroDivisionError / TypeError, never a panic); "
        "non-trivial = cell whose operands are of different types or that is an error cell; runtime errors (caught errors) and the errors they wrap in the value pool; a bool next to float / char is the documented conversion on both sides")

def run(ctx):
    table = ctx.path("table.ndjson")
    ctx.vh("c15", table)
    recs = vlib.read_ndjson(table)
    nv = sum(1 for r in recs if r["ev"] == "val")
    typ = {r["name"]: r["typ"] for r in recs if r["ev"] == "val"}
    cells = [r for r in recs if r["ev"] in ("op", "unary")]
    ctx.evaluations = len(cells)
    for r in cells:
        if r["ev"] == "op" and (typ[r["a"]] != typ[r["b"]] or r["kind"] != "value"):
            ctx.nontrivial.add((r["op"], r["a"], r["b"]))
    ctx.nontrivial = len(ctx.nontrivial)
    out = ctx.path("fail.ndjson")
    ctx.tlc("UgoOps", "UgoOps", env=dict(TABLE=table, OUT=out, NV=nv), timeout=1200)
    ctx.traces_validated = len(cells)
    ctx.exhaustive = True
    ctx.cov["domain_values"] = nv
    for f in vlib.read_tlc_export(out):
        key = "%s|%s|%s|%s" % (f["op"], f["a"], f["b"], f["why"][:40])
        ctx.violation(key, "%s %s %s: %s (real: %s)" % (f["a"], f["op"], f["b"], f["why"], f["got"]), f)
    for r in cells[::4001]:
        ctx.sample(dict(op=r["op"], a=r["a"], b=r["b"], result=r.get("script", r["kind"])))
    ctx.assumptions += ["the recorder's projection of results (type, small numeric value, bool, error name) is faithful",
                        "UgoOps.tla encodes docs/operators.md; combinations the documentation leaves open are accepted as value-or-error"]

def replay(ctx, rec):
    print(json.dumps(rec["case"], indent=1))
    c = rec["case"]
    table = ctx.path("table.ndjson")
    ctx.vh("c15", table)
    for r in vlib.read_ndjson(table):
        if r.get("op") == c["op"] and r.get("a") == c["a"] and r.get("b", "") == c["b"]:
            print("now:", r.get("script", r["kind"]), "direct:", r.get("direct"))
    return 1
