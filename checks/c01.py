"""C01: the optimizer never changes what a script does (tla/UgoSem.tla, UgoSemFam.tla families shadow / fold / cond)."""
import json, re
from checks import semcommon
from lib import vlib

RULE = ("programs: every binding form that can shadow a builtin name x 5 foldable builtins x 26 positions of binding and use; "
        "every binary operator (19) x 17 x 17 literal operands (ints, strings, bools, undefined, floats, uints, chars) as a constant expression in 5 positions (returned, in a called function, "
        "dead code, removed branch, non-constant variant); every literal kind as condition of if / ! / ternary / && / || / loop / else-if; "
        "each run with the optimizer off, at budgets 1..5 and default; all must equal the TLA+ reference semantics (which has no "
        "optimizer); a refusal is accepted only as an optimizer error naming the error the constant sub-expression raises; "
        "non-trivial = shadowing programs and folds whose operands are both literals; a literal constant as left operand in 4 further positions (used twice, index of a compound assignment, repeated implicitly in a constant group, in a function called twice)")

CONFIGS_Q = ["noopt", "default", "limit1", "limit2"]
CONFIGS_T = ["noopt", "default", "limit1", "limit2", "limit3", "limit4", "limit5"]

def run(ctx):
    configs = CONFIGS_Q if ctx.quick else CONFIGS_T
    out = ctx.path("c01.ndjson")
    ctx.tlc("UgoSemFam", "UgoSemFam_c01", env=dict(OUT=out), timeout=2400, name="c01")
    res = ctx.path("c01-res.ndjson")
    ctx.vh("sem", out, res, ",".join(configs))
    n = 0
    # what a constant expression itself does, outside the reference fragment: the optimizer-off run of the script that returns it
    own = {}
    def ekey(r):
        i = r["id"]
        return (i.get("k", "bin"), i.get("op"), i.get("a"), i.get("b"), i.get("d"))
    for r in vlib.read_ndjson(res):
        if r["fam"] in ("fold", "xfold") and r["id"]["pos"] == "ret":
            own[ekey(r)] = r["got"]["noopt"]
    for r in vlib.read_ndjson(res):
        n += 1
        ctx.evaluations += len(r["got"])
        key = vlib.sha(r["src"])
        if r["fam"] == "shadow" or (r["fam"] in ("fold", "xfold") and r["id"]["pos"] != "var"):
            ctx.nontrivial.add(key)
        ctx.traces_validated += 1
        if n % 400 == 1:
            ctx.sample(dict(fam=r["fam"], src=r["src"], expected=r["want"]))
        want = r["want"]
        if not r.get("refknown", True):
            # outside the reference fragment: the optimizer-off run is the meaning of the script
            want = r["got"]["noopt"]
            if want.startswith("COMPILE") or want.startswith("PANIC"):
                ctx.violation(key, "does not compile / panics without optimizer: %s\n%s" % (want, r["src"]), dict(kind="sem", src=r["src"]))
                continue
        elif r["ok"]:
            continue
        bad = {}
        for k, v in r["got"].items():
            if v == want:
                continue
            if r.get("mayrefuse") and k != "noopt" and v.startswith("COMPILE: Optimizer Error:"):
                # refusal with the constant sub-expression's own error; outside the reference fragment
                # the error must be the one the optimizer-off run raises
                names = ("ZeroDivisionError", "TypeError")
                expr = own.get(ekey(r), "") if r["fam"] in ("fold", "xfold") else ""
                if any(nm in v and (r.get("refknown", True) or nm in expr) for nm in names):
                    continue
                # any other error: the name the refusal reports is the name the expression raises when it is evaluated
                m = re.match(r"COMPILE: Optimizer Error: (\w+)", v)
                if m and not r.get("refknown", True) and ('"thr"' in expr and m.group(1) in expr):
                    continue
            bad[k] = v
        if bad:
            ctx.violation(key, "%s %s: %s != reference %s\n%s" % (r["fam"], json.dumps(r["id"]), json.dumps(bad)[:500], r["want"][:300], r["src"]),
                          dict(kind="sem", fam=r["fam"], id=r["id"], src=r["src"], want=r["want"]))
    if n == 0:
        raise vlib.Inconclusive("no programs")
    ctx.cov["programs"] = n
    ctx.exhaustive = True
    ctx.assumptions += ["renderer harness/cmd/vh/sem.go", "UgoSem.tla reference semantics (no optimizer: one meaning per program)"]

replay = semcommon.replay_sem
