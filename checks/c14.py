"""C14: calling a script function from Go equals calling it inside the script (UgoSem + family inv)."""
import json
from checks import semcommon
from lib import vlib

RULE = ("histories: 7 script functions (counter closure writing a global, variadic, recursive, throwing, importing and mutating a "
        "module, try/finally with logging, one that re-enters the host) x every sequence of three calls each made in the script, "
        "through a pooled Invoker or through an unpooled Invoker from a Go callback during the run, plus histories of three calls made by ONE Invoker (acquired once, child VM re-used; incl. recursion in statement position ending in an uncaught throw, and errors escaping through finally) in 3 orders; the TLA+ reference treats "
        "the three alike (invariant InvSame) and gives result, thrown error, log, captured-variable and global state after every "
        "call; optimizer on/off; non-trivial = histories with at least one call from Go; failures: every failure kind of the UgoPanic matrix with recovery on - the function called in the script against the same function called through a pooled / unpooled Invoker from a callback or after Run (InvokePairs, InvokeSame)")

def run(ctx):
    semcommon.run_sem(ctx, "UgoSemFam_c14", ["default", "noopt"] if ctx.quick else ["default", "noopt", "default+rt", "noopt+twice"],
                      nontrivial=lambda r: r["id"]["f"] == "invseq" or any(h != "in" for h in r["id"]["how"]), label="c14", sample_every=40)
    # failures: the recovery matrix of UgoPanic (C06) run with SetRecover(true); the outcome of a function called from Go
    # must be the outcome of the same function called in the script (pairs of contexts InvokePairs, invariant InvokeSame)
    out = ctx.path("matrix.ndjson")
    ctx.tlc("UgoPanic", "UgoPanic", env=dict(OUT=out), timeout=900, name="failures")
    line = json.loads(open(out).read().split("\n")[1])
    if isinstance(line, str):       # CSVWrite quotes the JSON text
        line = json.loads(line)
    pairs = [tuple(p) for p in line]
    res = ctx.path("c06-res.ndjson")
    ctx.vh("c06", out, res, timeout=3000, env=dict(VH_C06_OBS=1))
    obs = {}
    for r in vlib.read_ndjson(res):
        if r.get("kind") == "obs" and r["case"]["Depth"] == "shallow":
            obs[(r["case"]["Kind"], r["case"]["Ctx"], r["args"])] = r
    npairs = 0
    for (kind, cx, ai), r in sorted(obs.items()):
        for a, b in pairs:
            if cx != a or (kind, b, ai) not in obs:
                continue
            npairs += 1
            ctx.evaluations += 2
            ctx.traces_validated += 1
            ctx.nontrivial.add("fail:%s:%s:%s" % (kind, b, ai))
            o2 = obs[(kind, b, ai)]
            if r["obs"] != o2["obs"]:
                ctx.violation("fail|%s|%s|%s" % (kind, b, ai), "failure %s, argument set %s, recovery on: called in the script (%s) the outcome is %s, called from Go (%s) it is %s\n%s" % (kind, ai, a, r["obs"], b, o2["obs"], o2.get("src", "")),
                              dict(kind="fail", failure=kind, inscript=a, fromgo=b, args=ai, src=o2.get("src")))
    if npairs == 0:
        raise vlib.Inconclusive("no failure pairs compared")
    ctx.cov["failure_pairs"] = npairs
    # an Invoker the host keeps while the parent VM starts another run with other globals
    kres = ctx.path("keep.ndjson")
    ctx.vh("c14keep", kres)
    nkeep = 0
    for r in vlib.read_ndjson(kres):
        if r.get("done"):
            nkeep = r["n"]
            continue
        if r.get("harness"):
            ctx.drift.append(dict(what=r["harness"]))
            continue
        ctx.evaluations += 2
        ctx.traces_validated += 1
        key = "keep|%s|%s|%s" % (r["pooled"], r["between"], r["warm"])
        ctx.nontrivial.add(key)
        if not r["ok"]:
            head = ("pooled Invoker on a new VM (round %s)" % r["warm"]) if r["between"] == "abort-of-another-vm" else \
                   "Invoker kept across two runs of the parent VM (pooled=%s, between the runs: %s, used before: %s)" % (r["pooled"], r["between"], r["warm"])
            ctx.violation(key, "%s: %s\n%s" % (head, r["what"], r["src"]),
                          dict(kind="fail", keep=True, pooled=r["pooled"], between=r["between"], warm=r["warm"], src=r["src"], what=r["what"]))
    if nkeep == 0:
        raise vlib.Inconclusive("no kept-Invoker histories ran")
    ctx.cov["kept_invoker_histories"] = nkeep
    ctx.exhaustive = True
    ctx.assumptions += ["the host functions cbcall / cbcall2 (harness/cmd/vh/sem.go hostCall) use NewInvoker/Acquire/Invoke/Release as stdlib callbacks do",
                        "Go-side calls with too few or too many arguments are not generated (lenient by design)"]

def replay(ctx, rec):
    if rec["case"].get("kind") == "fail":
        print(json.dumps(rec["case"], indent=1)[:3000])
        return 1
    return semcommon.replay_sem(ctx, rec)
