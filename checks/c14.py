"""C14: calling a script function from Go equals calling it inside the script (UgoSem + family inv)."""
from checks import semcommon

RULE = ("histories: 7 script functions (counter closure writing a global, variadic, recursive, throwing, importing and mutating a "
        "module, try/finally with logging, one that re-enters the host) x every sequence of three calls each made in the script, "
        "through a pooled Invoker or through an unpooled Invoker from a Go callback during the run, plus histories of three calls made by ONE Invoker (acquired once, child VM re-used; incl. recursion in statement position ending in an uncaught throw, and errors escaping through finally) in 3 orders; the TLA+ reference treats "
        "the three alike (invariant InvSame) and gives result, thrown error, log, captured-variable and global state after every "
        "call; optimizer on/off; non-trivial = histories with at least one call from Go")

def run(ctx):
    semcommon.run_sem(ctx, "UgoSemFam_c14", ["default", "noopt"] if ctx.quick else ["default", "noopt", "default+rt", "noopt+twice"],
                      nontrivial=lambda r: r["id"]["f"] == "invseq" or any(h != "in" for h in r["id"]["how"]), label="c14", sample_every=40)
    ctx.exhaustive = True
    ctx.assumptions += ["the host functions cbcall / cbcall2 (harness/cmd/vh/sem.go hostCall) use NewInvoker/Acquire/Invoke/Release as stdlib callbacks do",
                        "Go-side calls with too few or too many arguments are not generated (lenient by design)"]

replay = semcommon.replay_sem
