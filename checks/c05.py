"""C05: Compile is total (tla/UgoLimits.tla)."""
import json, subprocess, os
from lib import vlib

RULE = ("limits: 6 resources (locals, parameters, call arguments, array / map literal elements, constants) x {capacity-1, capacity, "
        "capacity+1} (capacity derived in TLA+ from the real operand-width table) x declaring forms x nesting (main, function, source "
        "module, Eval fragment), optimizer on/off; soup: every token string up to 3 (thorough 4) tokens over a 40-token alphabet; "
        "bytesoup: every byte string up to 4 (thorough 5) bytes over 19 bytes that drive the scanner (comment / string delimiters, CR, LF, backslash, NUL, 0xff, ...); near: 12 valid skeleton programs covering every statement kind x every single token edit (insert / replace by any alphabet token, delete, repeat a two-token window, exchange neighbours; thorough: followed by every structural second edit), each compiled with the optimizer on / off / at budget 1, with tracing on, with a re-used symbol table, as a source module and as an Eval fragment; "
        "evalseq: every sequence of up to 3 (thorough 4) fragments of a 16-fragment catalogue in one Eval session, including fragments that fail after an import / declaration / constant; "
        "corpus: every UgoSem program x 5 option sets + a re-used symbol table; each compilation under recover, a 30 s watchdog and a "
        "memory ceiling in a restartable worker; on success the bytecode is scanned (jump / try targets, constant, local, builtin, "
        "module indexes, stream decodes to its end); non-trivial = limit cases and token strings that compile")

def worker(ctx, sub, cases, res, mem_kb=12000000):
    exe = ctx.build_harness()
    cmd = "ulimit -v %d; exec timeout 1500 %s %s %s %s" % (mem_kb, exe, sub, cases, res)
    p = subprocess.run(["bash", "-c", cmd], env=dict(vlib.GOENV), stdout=subprocess.PIPE, stderr=subprocess.PIPE, text=True)
    return p

def run(ctx):
    w1, w2 = ctx.path("w1.json"), ctx.path("w2.json")
    ctx.vh("widths", w1, w2)
    total = 0
    ok_cases = 0
    for label, cfg in (("limits", "UgoLimits_limits"), ("soup", "UgoLimits_soup" if ctx.quick else "UgoLimits_soup_t"),
                       ("near", "UgoLimits_near" if ctx.quick else "UgoLimits_near_t"),
                       ("evalseq", "UgoLimits_evalseq" if ctx.quick else "UgoLimits_evalseq_t"),
                       ("bytesoup", "UgoLimits_bytesoup" if ctx.quick else "UgoLimits_bytesoup_t")):
        out = ctx.path(label + ".ndjson")
        ctx.tlc("UgoLimits", cfg, env=dict(OUT=out, W2=w2), timeout=2400, name=label)
        # chunks, so that a worker killed by a runaway compilation is charged to a small set of inputs
        lines = open(out).read().splitlines()
        chunk = 4000
        for i in range(0, len(lines), chunk):
            part = ctx.path("%s-%d.ndjson" % (label, i))
            open(part, "w").write("\n".join(lines[i:i + chunk]) + "\n")
            res = ctx.path("%s-%d-res.ndjson" % (label, i))
            p = worker(ctx, "c05", part, res)
            done = False
            if os.path.exists(res):
                for r in vlib.read_ndjson(res):
                    if r.get("done"):
                        done = True
                        total += 2 * r["n"]
                        ok_cases += r["stats"].get("ok", 0)
                        continue
                    if r["what"]:
                        ctx.violation("%s|%s|%s" % (label, vlib.sha(r["src"]), r["what"][:30]), "%s: %s" % (r["src"][:200], r["what"]), r)
                    elif r["drift"] and len(ctx.drift) < 300:
                        ctx.drift.append(dict(src=r["src"][:120], what=r["drift"][:160]))
            if not done:
                ctx.violation("%s|crash|%d" % (label, i), "compiler worker died (rc=%d) on inputs %d..%d of family %s: %s" %
                              (p.returncode, i, i + chunk, label, (p.stderr or "").strip().splitlines()[0][:200] if (p.stderr or "").strip() else "killed"),
                              dict(family=label, first=i, inputs=lines[i:i + 5]))
        ctx.cov[label] = len(lines)
    # corpus x options
    corp = ctx.path("corpus.ndjson")
    ctx.tlc("UgoSemFam", "UgoSemFam_c02", env=dict(OUT=corp), timeout=1200, name="corpus")
    cres = ctx.path("corpus-res.ndjson")
    p = worker(ctx, "c05corpus", corp, cres)
    n = 0
    for r in vlib.read_ndjson(cres) if os.path.exists(cres) else []:
        if r.get("done"):
            n = r["n"]
            continue
        ctx.violation("corpus|%s|%s" % (vlib.sha(r["src"]), r["opts"]), "options %s: %s\n%s" % (r["opts"], r["what"], r["src"]), r)
    if n == 0:
        raise vlib.Inconclusive("corpus worker failed: " + (p.stderr or "")[-1500:])
    ctx.cov["corpus_programs"] = n
    # source modules delivered by an importer that renames them (file importer over an in-memory tree): compiling
    # terminates with Bytecode or an error also for cycles written with relative names (the reader stops a compiler
    # that keeps importing); only termination is charged here, the meaning of the layouts is C12's business
    fres = ctx.path("modfiles.ndjson")
    pf = ctx.vh("modfiles", fres, timeout=900, check=False)
    nfiles = 0
    if os.path.exists(fres):
        for r in vlib.read_ndjson(fres):
            if r.get("done"):
                nfiles = r["n"]
                continue
            if not r["ok"] and r.get("termination"):
                ctx.violation("modfiles|%s|%s" % (r["name"], r["noopt"]), "module layout %s (noopt=%s): %s\n%s" % (r["name"], r["noopt"], r["what"], json.dumps(r.get("files"), indent=1)), r)
    if nfiles == 0:
        if pf.returncode != 0 and ("stack overflow" in (pf.stderr or "") or "stack exceeds" in (pf.stderr or "")) and "ugo.(*Compiler)" in (pf.stderr or ""):
            ctx.violation("modfiles|crash", "compiling a module layout recursed until the process died (fatal stack overflow in ugo.(*Compiler))", dict(src="see harness/cmd/vh/c12.go"))
        else:
            raise vlib.Inconclusive("module layout replay failed rc=%d: %s" % (pf.returncode, (pf.stderr or "")[-1500:]))
    ctx.cov["module_layouts"] = nfiles
    total += nfiles
    ctx.evaluations = total + 6 * n
    ctx.traces_validated = total // 2 + n
    ctx.nontrivial = ok_cases + n
    ctx.exhaustive = True
    ctx.sample(dict(kind="limit", resource="callargs", n=256, form="spread", nest="function", predicted="error"))
    ctx.sample(dict(kind="soup", tokens=["var", "(", "1"]))
    ctx.assumptions += ["termination is observed with a 30 s watchdog and a 12 GB address-space ceiling, not proved",
                        "the capacity model (operand width => capacity) is compared as drift only; the verdict is panic / crash / hang / malformed bytecode"]

def replay(ctx, rec):
    print(json.dumps(rec["case"])[:3000])
    return 1
