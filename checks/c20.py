"""C20: values cross the Go boundary unchanged (tla/UgoBoundary.tla)."""
import json, os, subprocess
from lib import vlib

RULE = ("trees: every tagged tree up to depth 2 over the 8 plain uGO kinds (u2g) and over the 8 canonical Go kinds (g2u), and every "
        "other Go kind of the width table bare / inside a slice / inside a map; TLC checks ToO o ToI = id and ToI o ToO = id on the "
        "model and exports tree + expected image; the harness instantiates every tree with 3 boundary-value variants, every width-table kind with 2 to 9 (extremes of the width, zero, float32 values that are no short decimals, subnormals; extreme "
        "integers, NaN/-Inf, invalid UTF-8, nil vs empty containers) and compares ToInterface / ToObject / ToObjectAlt; "
        "histories: host / script write into earlier results, then a fresh equal value is converted; concurrency: 8 goroutines convert values of different registry-handled and plain types at once (race detector build), results must equal the sequential ones; "
        "non-trivial = trees with a container or a width-table kind; registry types (time, *time, duration, location, raw JSON) x 8 wrappers with their zero / nil / extreme values: image type and way back")

def run(ctx):
    out = ctx.path("b.ndjson")
    ctx.tlc("UgoBoundary", "UgoBoundary", env=dict(OUT=out), timeout=900)
    res = ctx.path("b-res.ndjson")
    ctx.vh("c20", out, res)
    cases = vlib.read_tlc_export(out)
    ctx.traces_validated = len(cases)
    ctx.nontrivial = sum(1 for c in cases if c["d"] in ("width", "reg", "shared") or c["t"]["k"] != "leaf")
    ctx.exhaustive = True
    for c in cases[::150]:
        ctx.sample(c)
    for r in vlib.read_ndjson(res):
        if r.get("summary"):
            ctx.evaluations = r["evaluations"]
            continue
        key = vlib.sha(json.dumps(r["case"], sort_keys=True) + str(r["variant"]))
        ctx.violation(key, "%s (variant %d of %s)" % (r["what"], r["variant"], json.dumps(r["case"])[:300]), r)
    # concurrent conversions (the registry is process-wide state), in a binary built with the race detector
    exe = ctx.build_harness(race=True)
    cres = ctx.path("conc-res.ndjson")
    env = dict(vlib.GOENV, GORACE="halt_on_error=0 exitcode=66")
    p = subprocess.run(["timeout", "900", exe, "c20conc", cres, "8", "150" if ctx.quick else "2000"], env=env, stdout=subprocess.PIPE, stderr=subprocess.PIPE, text=True)
    nconc = 0
    if os.path.exists(cres):
        for r in vlib.read_ndjson(cres):
            if r.get("done"):
                nconc = r["n"]
                continue
            ctx.violation("conc|" + vlib.sha(r["what"][:80]), r["what"], r)
    if "DATA RACE" in (p.stderr or ""):
        seen = set()
        for b in p.stderr.split("WARNING: DATA RACE")[1:]:
            lines = [l.strip() for l in b.splitlines() if l.strip().startswith("github.com/ozanh/ugo")]
            site = (lines[0] if lines else b.strip().splitlines()[0]).replace("()", "")
            if site not in seen:
                seen.add(site)
                ctx.violation("datarace|" + site, "data race between concurrent conversions at %s\n%s" % (site, "\n".join(b.strip().splitlines()[:12])), dict(site=site))
    elif p.returncode != 0:
        raise vlib.Inconclusive("concurrent conversion run failed rc=%d: %s" % (p.returncode, (p.stderr or "")[-1200:]))
    if nconc == 0:
        raise vlib.Inconclusive("no concurrent conversions executed")
    ctx.evaluations += nconc
    ctx.cov["concurrent_conversions"] = nconc
    ctx.assumptions += ["boundary-value variants stand for 'all values' of a kind", "width table of UgoBoundary.tla: ToObject treats int32/uint8 as rune/byte, ToObjectAlt converts every integer width"]

def replay(ctx, rec):
    print(json.dumps(rec["case"])[:2000])
    return 1
