"""C20: values cross the Go boundary unchanged (tla/UgoBoundary.tla)."""
import json
from lib import vlib

RULE = ("trees: every tagged tree up to depth 2 over the 8 plain uGO kinds (u2g) and over the 8 canonical Go kinds (g2u), and every "
        "other Go kind of the width table bare / inside a slice / inside a map; TLC checks ToO o ToI = id and ToI o ToO = id on the "
        "model and exports tree + expected image; the harness instantiates every tree with 3 boundary-value variants, every width-table kind with 2 to 9 (extremes of the width, zero, float32 values that are no short decimals, subnormals; extreme "
        "integers, NaN/-Inf, invalid UTF-8, nil vs empty containers) and compares ToInterface / ToObject / ToObjectAlt; "
        "non-trivial = trees with a container or a width-table kind")

def run(ctx):
    out = ctx.path("b.ndjson")
    ctx.tlc("UgoBoundary", "UgoBoundary", env=dict(OUT=out), timeout=900)
    res = ctx.path("b-res.ndjson")
    ctx.vh("c20", out, res)
    cases = vlib.read_tlc_export(out)
    ctx.traces_validated = len(cases)
    ctx.nontrivial = sum(1 for c in cases if c["d"] == "width" or c["t"]["k"] != "leaf")
    ctx.exhaustive = True
    for c in cases[::150]:
        ctx.sample(c)
    for r in vlib.read_ndjson(res):
        if r.get("summary"):
            ctx.evaluations = r["evaluations"]
            continue
        key = vlib.sha(json.dumps(r["case"], sort_keys=True) + str(r["variant"]))
        ctx.violation(key, "%s (variant %d of %s)" % (r["what"], r["variant"], json.dumps(r["case"])[:300]), r)
    ctx.assumptions += ["boundary-value variants stand for 'all values' of a kind", "width table of UgoBoundary.tla: ToObject treats int32/uint8 as rune/byte, ToObjectAlt converts every integer width"]

def replay(ctx, rec):
    print(json.dumps(rec["case"])[:2000])
    return 1
