"""C13: a disabled builtin cannot be reached (tla/UgoSem.tla static resolver ProgRefs + UgoSemFam families dis / dismod)."""
import json
from checks import semcommon
from lib import vlib

RULE = ("programs: 25 shadowing forms x 3 builtin names x all 8 subsets of disabled names, plus module / constant / "
        "dead-code / value-use variants (use in an imported source module, module that shadows the name itself, main that "
        "declares the name while the module uses the builtin, import inside an uncalled function, const initialiser, removed branch); "
        "the TLA+ static resolver predicts a compile error iff some reference resolves to a disabled builtin; replay with optimizer "
        "on and off, as a whole script and as a fragment of an Eval session whose earlier fragments referred to every disabled name (main scope and function body, twice) and had to be refused; compiled bytecode scanned for GETBUILTIN of a disabled name; non-trivial = disabled set not empty")

def run(ctx):
    out = ctx.path("c13.ndjson")
    ctx.tlc("UgoSemFam", "UgoSemFam_c13", env=dict(OUT=out), timeout=2400, name="c13")
    res = ctx.path("c13-res.ndjson")
    ctx.vh("sem", out, res, "default,noopt,default+sess,noopt+sess" if ctx.quick else "default,noopt,limit1,limit3,default+sess,noopt+sess,limit1+sess")
    n = 0
    for r in vlib.read_ndjson(res):
        n += 1
        ctx.evaluations += len(r["got"])
        key = vlib.sha(r["src"] + json.dumps(r["id"], sort_keys=True))
        if r["id"].get("d"):
            ctx.nontrivial.add(key)
        ctx.traces_validated += 1
        if n % 120 == 1:
            ctx.sample(dict(id=r["id"], src=r["src"], refused=r["refused"], expected=r["want"]))
        bad = {}
        for k, v in r["got"].items():
            if r["refused"] and r.get("refopt"):
                if not v.startswith("COMPILE:") and v != r["want"]:
                    bad[k] = v[:300]
            elif r["refused"]:
                if not v.startswith("COMPILE:"):
                    bad[k] = "compiled although a reference resolves to a disabled builtin: " + v[:200]
            elif v != r["want"]:
                bad[k] = v[:300]
        if bad:
            ctx.violation(key, "%s: %s\n%s" % (json.dumps(r["id"]), json.dumps(bad), r["src"]), dict(kind="sem", id=r["id"], src=r["src"], want=r["want"], refused=r["refused"]))
    if n == 0:
        raise vlib.Inconclusive("no programs")
    ctx.cov["programs"] = n
    ctx.exhaustive = True
    ctx.assumptions += ["module sources are rendered without the logging preamble", "static resolver BRefsFrom of UgoSem.tla mirrors single-pass textual resolution"]

replay = semcommon.replay_sem
