"""C09: Abort / context cancellation never lost (tla/UgoAbort.tla)."""
import json, os
from lib import vlib

RULE = ("schedules: for each script configuration the harness derives the instruction shape of the real script, TLC explores "
        "every interleaving of Run / Invoker / Abort / Eval.run / cancel at hook-to-hook grain (safety + liveness), and exports "
        "one schedule per transition of the state graph (edge cover); each schedule is forced on real goroutines through the "
        "sync-point gates, then all gates open and the property is judged on the real outcome, including three later scripts on the same VM (an error outside any try statement, a try statement, a plain return; configurations with the abort striking inside try statements of the main function); histories: one Invoker (pooled / unpooled) kept for three calls of a function that loops in call 1, 2 or 3, Abort once that call runs; non-trivial = the schedule "
        "contains an Abort that began after Run's reset, or a cancellation")

CONFIGS_QUICK = ["run-cb2-inf", "run-cb1-nopool", "run-try-call", "run-plain", "eval-cb", "eval-cbinf"]
CONFIGS_THOROUGH = ["run-cb2-inf", "run-cb1-nopool", "run-cb1-try", "run-try-call", "run-cb1-fin", "run-plain", "eval-cb", "eval-plain", "eval-cbinf"]

def tla_seq(xs):
    return "<<" + ", ".join('"%s"' % x for x in xs) + ">>"

def cfg_text(sh, variant, hist, naborts):
    props = "PROPERTIES %s\n" % ("AbortNotLost" if sh["mode"] == "run" else "EvalReturns")
    inv = "INVARIANTS TypeOK Mutex NoStuck" + (" Bounded AbortedResult" if sh["mode"] == "run" else "")
    if hist:
        return ("CONSTANTS\n  Variant = \"%s\"\n  Mode = \"%s\"\n  RootScript <- GenScript\n  LoopTo = %d\n  RootInf = %s\n"
                "  ChildLen <- GenChildLen\n  NAborts = %d\n  Hist = TRUE\nSPECIFICATION SpecH\nVIEW View\nINVARIANTS TypeOK Mutex\n"
                % (variant, sh["mode"], sh["loopto"], "TRUE" if sh["rootinf"] else "FALSE", naborts))
    return ("CONSTANTS\n  Variant = \"%s\"\n  Mode = \"%s\"\n  RootScript <- GenScript\n  LoopTo = %d\n  RootInf = %s\n"
            "  ChildLen <- GenChildLen\n  NAborts = %d\n  Hist = FALSE\nSPECIFICATION Spec\n%s\n%s"
            % (variant, sh["mode"], sh["loopto"], "TRUE" if sh["rootinf"] else "FALSE", naborts, inv, props))

def gen_module(sh):
    return ("---- MODULE UgoAbortGen ----\nEXTENDS UgoAbort\nGenScript == %s\nGenChildLen == %d\n====\n"
            % (tla_seq(sh["root"]), sh["childlen"]))

def run(ctx):
    cfgs = CONFIGS_QUICK if ctx.quick else CONFIGS_THOROUGH
    naborts = 2
    total = 0
    for name in cfgs:
        p = ctx.vh("abortshape", name)
        sh = json.loads(p.stdout.strip().splitlines()[-1])
        files = {"UgoAbortGen.tla": gen_module(sh)}
        # 1. the design: safety and liveness of the (repaired) protocol for this script shape
        files["UgoAbortGen.cfg"] = cfg_text(sh, "fixed", False, naborts)
        ctx.tlc("UgoAbortGen", "UgoAbortGen", files=files, name="abort-mc-" + name, timeout=900)
        # 2. schedules covering every transition
        out = ctx.path("sched-%s.ndjson" % name)
        files["UgoAbortGen.cfg"] = cfg_text(sh, "fixed", True, naborts)
        ctx.tlc("UgoAbortGen", "UgoAbortGen", files=files, env=dict(OUT=out), name="abort-sched-" + name, workers=1, timeout=900)
        # 3. forced on the real code
        res = ctx.path("res-%s.ndjson" % name)
        nsched = sum(1 for _ in open(out))
        budget = 1200 if ctx.quick else 40000
        every = max(1, -(-nsched // budget))
        ctx.vh("abortreplay", name, out, res, every, timeout=3000)
        ctx.cov.setdefault("schedules_exported", {})[name] = nsched
        n = 0
        for r in vlib.read_ndjson(res):
            n += 1
            ctx.evaluations += 1
            key = vlib.sha(name + "|" + " ".join(r["sched"]))
            if r["effective_abort"] or any(s.startswith("C:") for s in r["sched"]):
                ctx.nontrivial.add(key)
            if r["verdict"] == "violation":
                ctx.violation(key, "%s: %s; schedule: %s" % (name, r["what"], " ".join(r["sched"])),
                              dict(config=name, sched=r["sched"], what=r["what"]))
            elif r["verdict"] == "drift":
                ctx.drift.append(dict(config=name, what=r["what"]))
            if r["verdict"] in ("ok", "violation"):
                ctx.traces_validated += 1
            if n % 700 == 1:
                ctx.sample(dict(config=name, schedule=r["sched"], real=r["real_res"], model=r["model_res"], verdict=r["verdict"]))
        if n == 0:
            raise vlib.Inconclusive("no schedules for %s" % name)
        ctx.cov.setdefault("schedules", {})[name] = n
        total += n
    # one Invoker kept for several calls: Abort while its k-th call is running
    rres = ctx.path("reuse.ndjson")
    ctx.vh("abortreuse", rres, timeout=600)
    nreuse = 0
    for r in vlib.read_ndjson(rres):
        if r.get("done"):
            nreuse = r["n"]
            continue
        ctx.evaluations += 1
        ctx.traces_validated += 1
        key = "reuse|%s|%s|%s" % (r["pooled"], r["k"], r["catch"])
        ctx.nontrivial.add(key)
        if not r["ok"]:
            what = ("one Invoker (pooled=%s) invoked three times, the function loops in call %s (callback inside try: %s): %s\n%s" if r["catch"] != "panic" else
                    "Abort while a Go function is about to panic (recovery on; handler %s; in %s%s): %s\n%s") % (r["pooled"], r["k"], "" if r["catch"] == "panic" else r["catch"], r["what"], r["src"])
            ctx.violation(key, what,
                          dict(config="reuse", pooled=r["pooled"], k=r["k"], what=r["what"], sched=[]))
    if nreuse == 0:
        raise vlib.Inconclusive("no reuse histories ran")
    ctx.cov["invoker_reuse_histories"] = nreuse
    ctx.exhaustive = all(ctx.cov['schedules'][k] == ctx.cov['schedules_exported'][k] for k in ctx.cov['schedules'])
    ctx.assumptions += ["gates at the verif sync points are the only places where goroutines of the experiment interleave (hook-to-hook atomicity; lock-protected segments are atomic)",
                        "instruction shape of each script is derived from a dry run of the real code"]

def replay(ctx, rec):
    print(json.dumps(rec, indent=1))
    print("replay: re-run bin/check C09 (schedules are regenerated deterministically by TLC); the failing schedule is listed above")
    return 1
