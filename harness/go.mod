module verifharness

go 1.19

require github.com/ozanh/ugo v0.0.0

replace github.com/ozanh/ugo => /repo
