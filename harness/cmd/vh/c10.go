package main

// C10: Eval sessions. Statement sequences of UgoSemFam (family frag) cut into
// fragments in every possible way; fragment-wise evaluation on one real Eval is
// compared with the reference semantics and with evaluating the concatenation
// of the fragments so far as a single fragment of a fresh session.

import (
	"bytes"
	"context"
	"encoding/json"
	"fmt"
	"github.com/ozanh/ugo/encoder"
	"sort"
	"strings"

	"github.com/ozanh/ugo"
)

type fragStep struct {
	Ok   bool `json:"ok"`
	V    any  `json:"v"`
	NLog int  `json:"nlog"`
}
type fragCase struct {
	ID   N       `json:"id"`
	Prog semProg `json:"prog"`
	Frag struct {
		Steps []fragStep `json:"steps"`
		Log   []any      `json:"log"`
	} `json:"frag"`
}

// topLevelNames lists the names the statements declare at top level (in order, without duplicates).
func topLevelNames(stmts []any) []string {
	var out []string
	seen := map[string]bool{}
	add := func(n any) {
		if s, ok := n.(string); ok && s != "" && s != "_" && !seen[s] {
			seen[s] = true
			out = append(out, s)
		}
	}
	for _, st := range stmts {
		m, ok := st.(map[string]any)
		if !ok {
			continue
		}
		switch m["k"] {
		case "def", "var", "vari", "const":
			add(m["n"])
		case "constg", "global", "destr", "param", "paramv":
			for _, n := range seqOf(m["ns"]) {
				add(n)
			}
		}
	}
	return out
}

func evalObs(ret ugo.Object, err error, g ugo.Map) string {
	var o []any
	if err != nil {
		if re, ok := err.(*ugo.RuntimeError); ok {
			o = []any{"thr", semObj(re)}
		} else {
			o = []any{"goerr", strings.ReplaceAll(err.Error(), "\n", " ")}
		}
	} else {
		o = []any{"ret", semObj(ret)}
	}
	return canonS([]any{o, semObj(g["log"]).(N)["v"]})
}

func init() {
	// frag <cases.ndjson> <results.ndjson>
	subs["frag"] = func(args []string) error {
		out, err := newOut(args[1])
		if err != nil {
			return err
		}
		defer out.close()
		return readCases(args[0], func(raw []byte) error {
			var c fragCase
			if err := json.Unmarshal(raw, &c); err != nil {
				return err
			}
			body := c.Prog.Body
			var cuts []int
			for _, x := range seqOf(c.ID["cut"]) {
				cuts = append(cuts, int(x.(float64)))
			}
			sort.Ints(cuts)
			cuts = append(cuts, len(body))
			var frags [][]any
			prev := 0
			for _, k := range cuts {
				if k > prev {
					frags = append(frags, body[prev:k])
					prev = k
				}
			}
			r := N{"id": c.ID, "ok": true}
			var srcs []string
			for i, f := range frags {
				srcs = append(srcs, semSource(f, i == 0))
			}
			r["frags"] = srcs
			fail := func(format string, a ...any) {
				if r["ok"].(bool) {
					r["ok"] = false
					r["what"] = fmt.Sprintf(format, a...)
				}
			}
			// a sequence with values outside the reference fragment (float literals, conversions of them) has no
			// reference outcome: it is compared with the single script only
			refKnown := true
			for _, st := range c.Frag.Steps {
				if m, ok := st.V.(map[string]any); ok && !st.Ok {
					if n, _ := m["name"].(string); strings.HasPrefix(n, "unmodelled") {
						refKnown = false
					}
				}
			}
			refKnownCase := refKnown
			for _, mode := range []string{"opt", "noopt", "opt-nilglobals"} {
				noopt := mode == "noopt"
				// a session made without a globals object (NewEval(opts, nil)) has globals all the same: what one fragment
				// writes the next one reads; compared with the single script only, through the globals() builtin
				nilGlobals := mode == "opt-nilglobals"
				refKnown := refKnownCase && !nilGlobals
				func() {
					defer func() {
						if p := recover(); p != nil {
							fail("panic (%s): %v", mode, p)
						}
					}()
					mk := func() (*ugo.Eval, ugo.Map) {
						// the arguments the session is started with
						var args []ugo.Object
						for _, a := range c.Prog.Args {
							args = append(args, semValueObj(a.(N)))
						}
						if nilGlobals {
							return ugo.NewEval(ugo.CompilerOptions{ModuleMap: moduleMapOf(c.Prog), NoOptimize: noopt}, nil, args...), nil
						}
						g := ugo.Map{"log": ugo.Array{}}
						return ugo.NewEval(ugo.CompilerOptions{ModuleMap: moduleMapOf(c.Prog), NoOptimize: noopt}, g, args...), g
					}
					sess, g := mk()
					end := 0
					for k, src := range srcs {
						end += len(frags[k])
						ret, _, err := sess.Run(context.Background(), []byte(src))
						got := evalObs(ret, err, g)
						// reference: the first failing statement of this fragment, else the last statement
						var want string
						failed := false
						for j := end - len(frags[k]); refKnown && j < end && j < len(c.Frag.Steps); j++ {
							st := c.Frag.Steps[j]
							if !st.Ok {
								want = canonS([]any{[]any{"thr", st.V}, c.Frag.Log[:st.NLog]})
								failed = true
								break
							}
						}
						if !failed && refKnown {
							st := c.Frag.Steps[end-1]
							want = canonS([]any{[]any{"ret", st.V}, c.Frag.Log[:st.NLog]})
						}
						if !refKnown {
							failed = err != nil
						} else if got != want {
							fail("noopt=%v fragment %d: session %s, reference %s", noopt, k+1, got, want)
						}
						// the concatenation so far as one fragment of a fresh session
						batch, bg := mk()
						var sb strings.Builder
						var all []any
						for _, f := range frags[:k+1] {
							all = append(all, f...)
						}
						sb.WriteString(semSource(all, true))
						bret, _, berr := batch.Run(context.Background(), []byte(sb.String()))
						bgot := evalObs(bret, berr, bg)
						if bgot != got {
							fail("noopt=%v fragment %d: session %s, as one script %s", noopt, k+1, got, bgot)
						}
						// the variable state after the fragment - also after the one that failed - is the state of the
						// single script at that point: read every top-level name declared so far in both sessions
						if names := topLevelNames(all); len(names) > 0 || nilGlobals {
							probe := []byte("return [" + strings.Join(names, ", ") + "]")
							if nilGlobals {
								probe = []byte("return [globals(), [" + strings.Join(names, ", ") + "]]")
							}
							pr, _, perr := sess.Run(context.Background(), probe)
							br, _, bperr := batch.Run(context.Background(), probe)
							if ps, bs := evalObs(pr, perr, g), evalObs(br, bperr, bg); ps != bs {
								fail("noopt=%v after fragment %d (failed: %v): variables %v are %s in the session, %s after the same statements as one script", noopt, k+1, failed, names, ps, bs)
							}
						}
						if failed {
							break
						}
					}
				}()
			}
			out.put(r)
			return nil
		})
	}
}

func init() {
	// c12many <results.ndjson>: scripts importing n source modules for n around the operand-width boundaries of the
	// module index (255 / 256 / 257, 300, 600): every body runs once, every import of module i gives module i's
	// object, state set through one import is seen through the others - optimizer on / off, after encode / decode
	subs["c12many"] = func(args []string) error {
		out, err := newOut(args[0])
		if err != nil {
			return err
		}
		defer out.close()
		total := 0
		for _, n := range []int{3, 255, 256, 257, 300, 600} {
			mm := ugo.NewModuleMap()
			for i := 0; i < n; i++ {
				mm.AddSourceModule(fmt.Sprintf("m%d", i), []byte(fmt.Sprintf("global loads\nloads = loads + 1\nreturn {id: %d, c: 0}", i)))
			}
			var sb strings.Builder
			sb.WriteString("global loads\nloads = 0\n")
			for i := 0; i < n; i++ {
				// (200 variables, re-used by assignment: a script has at most 256 locals)
				if i < 200 {
					fmt.Fprintf(&sb, "v%d := import(\"m%d\")\n", i, i)
				} else {
					fmt.Fprintf(&sb, "v%d = import(\"m%d\")\n", i%200, i)
				}
			}
			fmt.Fprintf(&sb, "a := import(\"m0\")\na.c = 5\nz := import(\"m%d\")\nz.c = 7\nbad := []\n", n-1)
			for i := 0; i < n; i++ {
				fmt.Fprintf(&sb, "if import(\"m%d\").id != %d { bad = append(bad, %d) }\n", i, i, i)
			}
			fmt.Fprintf(&sb, "f := func() { return [import(\"m0\").c, import(\"m%d\").c, import(\"m%d\").id] }\nreturn [bad, f(), loads]\n", n-1, n/2)
			want := fmt.Sprintf("[[], [5, 7, %d], %d]", n/2, n)
			for _, noopt := range []bool{false, true} {
				for _, rt := range []bool{false, true} {
					total++
					r := N{"n": n, "noopt": noopt, "rt": rt, "ok": true}
					func() {
						defer func() {
							if p := recover(); p != nil {
								r["ok"], r["what"] = false, fmt.Sprint("panic: ", p)
							}
						}()
						bc, err := ugo.Compile([]byte(sb.String()), ugo.CompilerOptions{ModuleMap: mm, NoOptimize: noopt})
						if err != nil {
							r["ok"], r["what"] = false, "compile: "+err.Error()
							return
						}
						if rt {
							var buf bytes.Buffer
							if err := encoder.EncodeBytecodeTo(bc, &buf); err != nil {
								r["ok"], r["what"] = false, "encode: "+err.Error()
								return
							}
							if bc, err = encoder.DecodeBytecodeFrom(&buf, mm); err != nil {
								r["ok"], r["what"] = false, "decode: "+err.Error()
								return
							}
						}
						ret, err := ugo.NewVM(bc).Run(ugo.Map{})
						if err != nil || ret.String() != want {
							r["ok"], r["what"] = false, fmt.Sprintf("returned %v / %v, expected %s ([modules with a wrong object], [m0.c, m%d.c, m%d.id], number of bodies executed)", ret, err, want, n-1, n/2)
						}
					}()
					if !r["ok"].(bool) {
						out.put(r)
					}
				}
			}
		}
		out.put(N{"done": true, "n": total})
		return nil
	}
}
