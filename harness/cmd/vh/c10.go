package main

// C10: Eval sessions. Statement sequences of UgoSemFam (family frag) cut into
// fragments in every possible way; fragment-wise evaluation on one real Eval is
// compared with the reference semantics and with evaluating the concatenation
// of the fragments so far as a single fragment of a fresh session.

import (
	"context"
	"encoding/json"
	"fmt"
	"sort"
	"strings"

	"github.com/ozanh/ugo"
)

type fragStep struct {
	Ok   bool `json:"ok"`
	V    any  `json:"v"`
	NLog int  `json:"nlog"`
}
type fragCase struct {
	ID   N       `json:"id"`
	Prog semProg `json:"prog"`
	Frag struct {
		Steps []fragStep `json:"steps"`
		Log   []any      `json:"log"`
	} `json:"frag"`
}

// topLevelNames lists the names the statements declare at top level (in order, without duplicates).
func topLevelNames(stmts []any) []string {
	var out []string
	seen := map[string]bool{}
	add := func(n any) {
		if s, ok := n.(string); ok && s != "" && s != "_" && !seen[s] {
			seen[s] = true
			out = append(out, s)
		}
	}
	for _, st := range stmts {
		m, ok := st.(map[string]any)
		if !ok {
			continue
		}
		switch m["k"] {
		case "def", "var", "vari", "const":
			add(m["n"])
		case "constg", "global", "destr":
			for _, n := range seqOf(m["ns"]) {
				add(n)
			}
		}
	}
	return out
}

func evalObs(ret ugo.Object, err error, g ugo.Map) string {
	var o []any
	if err != nil {
		if re, ok := err.(*ugo.RuntimeError); ok {
			o = []any{"thr", semObj(re)}
		} else {
			o = []any{"goerr", strings.ReplaceAll(err.Error(), "\n", " ")}
		}
	} else {
		o = []any{"ret", semObj(ret)}
	}
	return canonS([]any{o, semObj(g["log"]).(N)["v"]})
}

func init() {
	// frag <cases.ndjson> <results.ndjson>
	subs["frag"] = func(args []string) error {
		out, err := newOut(args[1])
		if err != nil {
			return err
		}
		defer out.close()
		return readCases(args[0], func(raw []byte) error {
			var c fragCase
			if err := json.Unmarshal(raw, &c); err != nil {
				return err
			}
			body := c.Prog.Body
			var cuts []int
			for _, x := range seqOf(c.ID["cut"]) {
				cuts = append(cuts, int(x.(float64)))
			}
			sort.Ints(cuts)
			cuts = append(cuts, len(body))
			var frags [][]any
			prev := 0
			for _, k := range cuts {
				if k > prev {
					frags = append(frags, body[prev:k])
					prev = k
				}
			}
			r := N{"id": c.ID, "ok": true}
			var srcs []string
			for i, f := range frags {
				srcs = append(srcs, semSource(f, i == 0))
			}
			r["frags"] = srcs
			fail := func(format string, a ...any) {
				if r["ok"].(bool) {
					r["ok"] = false
					r["what"] = fmt.Sprintf(format, a...)
				}
			}
			for _, noopt := range []bool{false, true} {
				func() {
					defer func() {
						if p := recover(); p != nil {
							fail("panic (noopt=%v): %v", noopt, p)
						}
					}()
					mk := func() (*ugo.Eval, ugo.Map) {
						g := ugo.Map{"log": ugo.Array{}}
						return ugo.NewEval(ugo.CompilerOptions{ModuleMap: moduleMapOf(c.Prog), NoOptimize: noopt}, g), g
					}
					sess, g := mk()
					end := 0
					for k, src := range srcs {
						end += len(frags[k])
						ret, _, err := sess.Run(context.Background(), []byte(src))
						got := evalObs(ret, err, g)
						// reference: the first failing statement of this fragment, else the last statement
						var want string
						failed := false
						for j := end - len(frags[k]); j < end && j < len(c.Frag.Steps); j++ {
							st := c.Frag.Steps[j]
							if !st.Ok {
								want = canonS([]any{[]any{"thr", st.V}, c.Frag.Log[:st.NLog]})
								failed = true
								break
							}
						}
						if !failed {
							st := c.Frag.Steps[end-1]
							want = canonS([]any{[]any{"ret", st.V}, c.Frag.Log[:st.NLog]})
						}
						if got != want {
							fail("noopt=%v fragment %d: session %s, reference %s", noopt, k+1, got, want)
						}
						// the concatenation so far as one fragment of a fresh session
						batch, bg := mk()
						var sb strings.Builder
						var all []any
						for _, f := range frags[:k+1] {
							all = append(all, f...)
						}
						sb.WriteString(semSource(all, true))
						bret, _, berr := batch.Run(context.Background(), []byte(sb.String()))
						bgot := evalObs(bret, berr, bg)
						if bgot != got {
							fail("noopt=%v fragment %d: session %s, as one script %s", noopt, k+1, got, bgot)
						}
						// the variable state after the fragment - also after the one that failed - is the state of the
						// single script at that point: read every top-level name declared so far in both sessions
						if names := topLevelNames(all); len(names) > 0 {
							probe := []byte("return [" + strings.Join(names, ", ") + "]")
							pr, _, perr := sess.Run(context.Background(), probe)
							br, _, bperr := batch.Run(context.Background(), probe)
							if ps, bs := evalObs(pr, perr, g), evalObs(br, bperr, bg); ps != bs {
								fail("noopt=%v after fragment %d (failed: %v): variables %v are %s in the session, %s after the same statements as one script", noopt, k+1, failed, names, ps, bs)
							}
						}
						if failed {
							break
						}
					}
				}()
			}
			out.put(r)
			return nil
		})
	}
}
