package main

// C09: forcing TLC-generated schedules of tla/UgoAbort.tla on real goroutines.
// Every sync point of build tag verif is a gate: a goroutine arriving there
// parks until the scheduler releases it, so a TLC behaviour (a total order of
// gate releases) is reproduced exactly.  After the forced prefix all gates are
// opened and the property is judged on what the real code then does.

import (
	"bytes"
	"context"
	"encoding/json"
	"errors"
	"fmt"
	"runtime"
	"strconv"
	"strings"
	"sync"
	"time"

	"github.com/ozanh/ugo"
)

func goid() int64 {
	var buf [64]byte
	n := runtime.Stack(buf[:], false)
	f := bytes.Fields(buf[:n])
	id, _ := strconv.ParseInt(string(f[1]), 10, 64)
	return id
}

type gateKey struct {
	Point string
	VM    int
}

func (g gateKey) String() string { return fmt.Sprintf("%s/%d", g.Point, g.VM) }

type gateEv struct {
	Seq   int
	Role  string
	Point string
	VM    int
}

type park struct {
	key gateKey
	ch  chan struct{}
}

type gsched struct {
	mu         sync.Mutex
	cond       *sync.Cond
	parked     map[string]*park
	roles      map[int64]string
	vmidx      map[*ugo.VM]int
	free       bool
	events     []gateEv
	nextChild  int
	newRole    string // role given to a goroutine seen for the first time
	finished   map[string]bool
	root       *ugo.VM
	unexpected string
}

var realGates = map[string]bool{
	"run.enter": true, "run.reset": true, "run.rechecked": true, "step": true, "run.exit": true,
	"pool.acquired": true, "invoke.check": true, "invoke.checked": true, "pool.released": true,
	"abort.begin": true, "abort.mid": true, "abort.end": true, "pool.abort.child": true,
	"eval.abort.early": true, "eval.spawn": true, "eval.go": true, "eval.abort": true,
}

func newGsched() *gsched {
	s := &gsched{parked: map[string]*park{}, roles: map[int64]string{}, vmidx: map[*ugo.VM]int{},
		finished: map[string]bool{}, nextChild: 1}
	s.cond = sync.NewCond(&s.mu)
	return s
}

func (s *gsched) install() {
	ugo.VerifSyncFn = func(vm *ugo.VM, point string) { s.arrive(vm, point) }
	ugo.VerifStepFn = func(vm *ugo.VM, fn *ugo.CompiledFunction, fi, ip int, op ugo.Opcode, sp, nh int) {
		s.arrive(vm, "step")
	}
}
func (s *gsched) uninstall() { ugo.VerifSyncFn = nil; ugo.VerifStepFn = nil }

func (s *gsched) register(role string) {
	s.mu.Lock()
	s.roles[goid()] = role
	s.mu.Unlock()
}

func (s *gsched) arrive(vm *ugo.VM, point string) {
	if !realGates[point] {
		return
	}
	gid := goid()
	s.mu.Lock()
	role, ok := s.roles[gid]
	if !ok {
		role = s.newRole
		if role == "" {
			role = "?"
		}
		s.roles[gid] = role
	}
	idx, ok := s.vmidx[vm]
	if point == "pool.acquired" {
		idx = s.nextChild
		s.vmidx[vm] = idx
	} else if !ok {
		if vm == s.root {
			idx = 0
		} else {
			idx = -1
		}
	}
	s.events = append(s.events, gateEv{len(s.events), role, point, idx})
	if s.free {
		s.mu.Unlock()
		return
	}
	p := &park{gateKey{point, idx}, make(chan struct{})}
	s.parked[role] = p
	s.cond.Broadcast()
	s.mu.Unlock()
	<-p.ch
}

func (s *gsched) release(role string) bool {
	s.mu.Lock()
	p := s.parked[role]
	delete(s.parked, role)
	s.mu.Unlock()
	if p == nil {
		return false
	}
	close(p.ch)
	return true
}

func (s *gsched) openAll() {
	s.mu.Lock()
	s.free = true
	ps := s.parked
	s.parked = map[string]*park{}
	s.mu.Unlock()
	for _, p := range ps {
		close(p.ch)
	}
}

func (s *gsched) markFinished(role string) {
	s.mu.Lock()
	s.finished[role] = true
	s.cond.Broadcast()
	s.mu.Unlock()
}

// waitFor blocks until every role is where the model says; returns "" or a mismatch description.
func (s *gsched) waitFor(expect map[string]gateKey, d time.Duration) string {
	deadline := time.Now().Add(d)
	timer := time.AfterFunc(d+10*time.Millisecond, func() { s.mu.Lock(); s.cond.Broadcast(); s.mu.Unlock() })
	defer timer.Stop()
	s.mu.Lock()
	defer s.mu.Unlock()
	for {
		okAll := true
		for role, want := range expect {
			p := s.parked[role]
			switch {
			case realGates[want.Point]:
				if p == nil {
					okAll = false
				} else if p.key != want {
					return fmt.Sprintf("%s parked at %s, model expects %s", role, p.key, want)
				}
			case want.Point == "done":
				if p != nil {
					return fmt.Sprintf("%s parked at %s, model expects it to have finished", role, p.key)
				}
				if !s.finished[role] {
					okAll = false
				}
			default: // not at a gate
				if p != nil {
					return fmt.Sprintf("%s parked at %s, model expects it at %s", role, p.key, want.Point)
				}
			}
		}
		if okAll {
			return ""
		}
		if time.Now().After(deadline) {
			var miss []string
			for role, want := range expect {
				p := s.parked[role]
				if realGates[want.Point] && p == nil {
					miss = append(miss, fmt.Sprintf("%s never arrived at %s", role, want))
				}
				if want.Point == "done" && !s.finished[role] {
					miss = append(miss, fmt.Sprintf("%s did not finish", role))
				}
			}
			return "timeout: " + strings.Join(miss, "; ")
		}
		s.cond.Wait()
	}
}

// laterOn runs src on vm (mode "run" / "run-fresh") or as a fragment of eval, under a watchdog.
func laterOn(vm *ugo.VM, eval *ugo.Eval, cfg abortCfg, src string) string {
	ch := make(chan string, 1)
	go func() {
		defer func() {
			if p := recover(); p != nil {
				ch <- fmt.Sprint("PANIC ", p)
			}
		}()
		if cfg.Mode != "eval" {
			if cfg.Mode == "run" {
				bc2, err := ugo.Compile([]byte(src), ugo.CompilerOptions{})
				if err != nil {
					ch <- "COMPILE " + err.Error()
					return
				}
				vm.SetBytecode(bc2)
			}
			ret, err := vm.Run(ugo.Map{"cb": cbFuncFor(false)})
			ch <- fmt.Sprint(ret, " ", errName(err))
			return
		}
		ret, _, err := eval.Run(context.Background(), []byte(src))
		ch <- fmt.Sprint(ret, " ", errName(err))
	}()
	select {
	case x := <-ch:
		return x
	case <-time.After(5 * time.Second):
		for i := 0; i < 2000; i++ {
			vm.Abort()
			time.Sleep(time.Millisecond)
		}
		return "did not end within 5 s"
	}
}

// errName renders an error as name:message of the uGO error it carries.
func errName(err error) string {
	if err == nil {
		return "<nil>"
	}
	if re, ok := err.(*ugo.RuntimeError); ok && re.Err != nil {
		return re.Err.Name + ":" + re.Err.Message
	}
	if e, ok := err.(*ugo.Error); ok {
		return e.Name + ":" + e.Message
	}
	return "go:" + strings.SplitN(err.Error(), "\n", 2)[0]
}

// ---------------------------------------------------------------- scripts

type abortCfg struct {
	NoPool   bool // the callback uses Invoke without Acquire / Release
	Name     string
	Mode     string // run | eval
	Src      string // root script
	ChildInf bool
	RootInf  bool
}

const cbChildInf = "f := func() { for {} }\n"
const cbChildFin = "f := func() { return 1 }\n"

var abortCfgs = map[string]abortCfg{
	"run-cb2-inf": {Name: "run-cb2-inf", Mode: "run", ChildInf: true,
		Src: "global cb\n%scb(f)\ncb(f)\nreturn 7\n"},
	"run-cb1-nopool": {Name: "run-cb1-nopool", Mode: "run", ChildInf: true, NoPool: true,
		Src: "global cb\n%scb(f)\nreturn 7\n"},
	// the callback is awaited inside try / catch / finally: the abort strikes while handlers are open
	"run-cb1-try": {Name: "run-cb1-try", Mode: "run", ChildInf: true,
		Src: "global cb\n%stry { cb(f) } catch e { return 1 } finally { y := 2 }\nreturn 7\n"},
	// the root VM loops inside a script function called from a try statement of the main function
	"run-try-call": {Name: "run-try-call", Mode: "run", RootInf: true,
		Src: "global cb\n%sg := func() { for {} }\ntry { g() } catch e { return 1 } finally { y := 2 }\nreturn 7\n"},
	"run-cb1-fin": {Name: "run-cb1-fin", Mode: "run", ChildInf: false,
		Src: "global cb\n%sx := cb(f)\nreturn x + 6\n"},
	"run-plain": {Name: "run-plain", Mode: "run", RootInf: true,
		Src: "global cb\n%sfor {}\n"},
	"eval-cb": {Name: "eval-cb", Mode: "eval", RootInf: true, ChildInf: false,
		Src: "global cb\n%sfor { cb(f) }\n"},
	"eval-plain": {Name: "eval-plain", Mode: "eval", RootInf: true,
		Src: "global cb\n%sfor {}\n"},
	"eval-cbinf": {Name: "eval-cbinf", Mode: "eval", RootInf: false, ChildInf: true,
		Src: "global cb\n%scb(f)\n"},
}

func (c abortCfg) source(forShape bool) string {
	child := cbChildFin
	if c.ChildInf && !forShape {
		child = cbChildInf
	}
	return fmt.Sprintf(c.Src, child)
}

func cbFunc() *ugo.Function { return cbFuncFor(false) }

func cbFuncFor(noPool bool) *ugo.Function {
	return &ugo.Function{Name: "cb", ValueEx: func(c ugo.Call) (ugo.Object, error) {
		inv := ugo.NewInvoker(c.VM(), c.Get(0))
		if !noPool {
			inv.Acquire()
			defer inv.Release()
		}
		return inv.Invoke()
	}}
}

type shape struct {
	Root     []string `json:"root"`
	LoopTo   int      `json:"loopto"`
	RootInf  bool     `json:"rootinf"`
	ChildLen int      `json:"childlen"`
	Mode     string   `json:"mode"`
}

// abortShape dry-runs the script (finite child stand-in) and derives the
// instruction shape the model needs: root = p / cb / ret per instruction.
func abortShape(c abortCfg) (shape, error) {
	sh := shape{RootInf: c.RootInf, LoopTo: 1, ChildLen: -1, Mode: c.Mode}
	var vm *ugo.VM
	var eval *ugo.Eval
	globals := ugo.Map{"cb": cbFuncFor(c.NoPool)}
	if c.Mode == "eval" {
		eval = ugo.NewEval(ugo.CompilerOptions{}, globals)
		vm = eval.VM
	} else {
		bc, err := ugo.Compile([]byte(c.source(true)), ugo.CompilerOptions{})
		if err != nil {
			return sh, err
		}
		vm = ugo.NewVM(bc)
	}
	type ev struct {
		root bool
		ip   int
		acq  bool
	}
	var mu sync.Mutex
	var evs []ev
	stop := false
	seen := map[int]int{}
	nroot := 0
	childSteps, inChild, childRuns := 0, false, 0
	ugo.VerifStepFn = func(v *ugo.VM, fn *ugo.CompiledFunction, fi, ip int, op ugo.Opcode, sp, nh int) {
		mu.Lock()
		defer mu.Unlock()
		if stop {
			return
		}
		if v == vm {
			if at, ok := seen[ip]; ok && c.RootInf {
				sh.LoopTo = at + 1
				stop = true
				go func() {
					for i := 0; i < 1000; i++ {
						vm.Abort()
						time.Sleep(time.Millisecond)
					}
				}()
				return
			}
			seen[ip] = nroot
			nroot++
			evs = append(evs, ev{root: true, ip: ip})
		} else if inChild && childRuns == 1 {
			childSteps++
		}
	}
	ugo.VerifSyncFn = func(v *ugo.VM, point string) {
		mu.Lock()
		defer mu.Unlock()
		if stop {
			return
		}
		switch point {
		case "pool.acquired":
			evs = append(evs, ev{acq: true})
		case "run.enter":
			if v != vm {
				inChild = true
				childRuns++
			}
		case "run.exit":
			if v != vm {
				inChild = false
			}
		}
	}
	if eval != nil {
		if _, _, err := eval.Run(context.Background(), []byte(c.source(true))); err != nil && !errors.Is(err, ugo.ErrVMAborted) {
			return sh, err
		}
	} else {
		vm.Run(globals)
	}
	ugo.VerifStepFn, ugo.VerifSyncFn = nil, nil
	for i, e := range evs {
		if !e.root {
			continue
		}
		k := "p"
		if i+1 < len(evs) && evs[i+1].acq {
			k = "cb"
		}
		sh.Root = append(sh.Root, k)
	}
	if !c.RootInf {
		// the last executed instruction is the RETURN
		sh.Root = sh.Root[:len(sh.Root)-1]
	}
	if childRuns > 0 && !c.ChildInf {
		sh.ChildLen = childSteps - 1 // last one is the RETURN
	}
	return sh, nil
}

// ---------------------------------------------------------------- replay

type schedEntry struct {
	G   string `json:"g"`
	Rel []any  `json:"rel"`
	R   []any  `json:"r"`
	A   []any  `json:"a"`
	M   []any  `json:"m"`
}
type schedCase struct {
	Sched     []schedEntry `json:"sched"`
	Res       string       `json:"res"`
	Hdone     bool         `json:"hdone"`
	Cancelled bool         `json:"cancelled"`
	Mdone     bool         `json:"mdone"`
	Rdone     bool         `json:"rdone"`
}

func gk(v []any) gateKey {
	if len(v) != 2 {
		return gateKey{"?", 0}
	}
	f, _ := v[1].(float64)
	return gateKey{v[0].(string), int(f)}
}

type replayResult struct {
	N         int            `json:"n"`
	Steps     int            `json:"steps"`
	Forced    int            `json:"forced"`
	Mismatch  string         `json:"mismatch,omitempty"`
	Verdict   string         `json:"verdict"` // ok | violation | drift | skipped
	What      string         `json:"what,omitempty"`
	RealRes   string         `json:"real_res"`
	ModelRes  string         `json:"model_res"`
	Sched     []string       `json:"sched"`
	Effective bool           `json:"effective_abort"`
	PostSteps map[string]int `json:"post_steps,omitempty"`
	FollowUp  string         `json:"followup,omitempty"`
}

func classify(err error) string {
	switch {
	case err == nil:
		return "ok"
	case errors.Is(err, ugo.ErrVMAborted) || strings.Contains(err.Error(), ugo.ErrVMAborted.Error()):
		return "aborted"
	case errors.Is(err, context.Canceled):
		return "cancelled"
	default:
		return "error:" + err.Error()
	}
}

func replayAbort(cfg abortCfg, sc schedCase, n int) replayResult {
	rr := replayResult{N: n, Steps: len(sc.Sched), ModelRes: sc.Res}
	for _, e := range sc.Sched {
		rr.Sched = append(rr.Sched, e.G+":"+gk(e.Rel).String())
	}
	bc, err := ugo.Compile([]byte(cfg.source(false)), ugo.CompilerOptions{})
	if err != nil {
		rr.Verdict, rr.What = "skipped", "compile: "+err.Error()
		return rr
	}
	globals := ugo.Map{"cb": cbFuncFor(cfg.NoPool)}
	vm := ugo.NewVM(bc)
	s := newGsched()
	s.root = vm
	s.install()
	defer s.uninstall()

	var runErr, evalErr error
	runDone := make(chan struct{})
	evalDone := make(chan struct{})
	ctx, cancel := context.WithCancel(context.Background())
	defer cancel()
	eval := (*ugo.Eval)(nil)
	if cfg.Mode == "eval" {
		eval = ugo.NewEval(ugo.CompilerOptions{}, globals)
		s.root = eval.VM
		vm = eval.VM
		s.newRole = "R" // the goroutine Eval.run spawns
	}
	aborter := "A"
	if cfg.Mode == "eval" {
		aborter = "M"
	}
	startRunner := func() {
		go func() {
			s.register("R")
			_, runErr = vm.Run(globals)
			s.markFinished("R")
			close(runDone)
		}()
	}
	var abortWG sync.WaitGroup
	startAbort := func() {
		abortWG.Add(1)
		go func() {
			defer abortWG.Done()
			s.register("A")
			vm.Abort()
			s.markFinished("A")
		}()
	}
	evalStarted := false
	startEval := func() {
		evalStarted = true
		go func() {
			s.register("M")
			_, _, evalErr = eval.Run(ctx, []byte(cfg.source(false)))
			s.markFinished("M")
			close(evalDone)
		}()
	}
	cancelled := false
	for i, e := range sc.Sched {
		rel := gk(e.Rel)
		switch {
		case e.G == "C":
			cancel()
			cancelled = true
		case e.G == "T":
			// the ticker of the repaired Eval.run fires by itself
		case rel.Point == "init" && e.G == "R":
			startRunner()
		case rel.Point == "init" && e.G == "M":
			startEval()
		case rel.Point == "idle" && e.G == "A":
			s.mu.Lock()
			s.finished["A"] = false
			s.mu.Unlock()
			startAbort()
		default:
			role := e.G
			if !realGates[rel.Point] {
				// a pseudo position of the model (inabort, wait): the goroutine moves by itself
				break
			}
			if !s.release(role) {
				rr.Mismatch = fmt.Sprintf("step %d: %s is not parked at %s", i, role, rel)
			}
		}
		if rr.Mismatch != "" {
			break
		}
		expect := map[string]gateKey{}
		if cfg.Mode == "run" {
			expect["R"] = gk(e.R)
			expect["A"] = gk(e.A)
			if expect["A"].Point == "idle" {
				expect["A"] = gateKey{"none", 0}
			}
		} else {
			expect["R"] = gk(e.R)
			a, m := gk(e.A), gk(e.M)
			if realGates[a.Point] {
				expect["M"] = a
			} else {
				expect["M"] = m
			}
			if p := expect["R"].Point; p == "idle" || p == "done" {
				// the runner goroutine is spawned inside Eval.run: its end is not observable
				expect["R"] = gateKey{"none", 0}
			}
		}
		// the child id the next pool.acquired will get
		if r := gk(e.R); r.Point == "pool.acquired" {
			s.mu.Lock()
			s.nextChild = r.VM
			s.mu.Unlock()
		}
		d := 500 * time.Millisecond
		if msg := s.waitFor(expect, d); msg != "" {
			rr.Mismatch = fmt.Sprintf("step %d (%s:%s): %s", i, e.G, rel, msg)
			break
		}
		rr.Forced = i + 1
	}
	// free run
	s.openAll()
	s.mu.Lock()
	evs := append([]gateEv(nil), s.events...)
	s.mu.Unlock()
	// effective abort: an Abort on the root that began after the root's reset
	resetSeq, effBegin, effEnd := -1, -1, -1
	started := map[string]bool{}
	analyse := func(evs []gateEv) {
		resetSeq, effBegin, effEnd = -1, -1, -1
		for _, ev := range evs {
			started[ev.Role] = true
			if ev.Role == "R" && ev.Point == "run.reset" && ev.VM == 0 && resetSeq < 0 {
				resetSeq = ev.Seq
			}
			if ev.Role == aborter && ev.Point == "abort.begin" && ev.VM == 0 && resetSeq >= 0 && effBegin < 0 {
				effBegin = ev.Seq
			}
			if ev.Role == aborter && ev.Point == "abort.end" && ev.VM == 0 && effBegin >= 0 && effEnd < 0 {
				effEnd = ev.Seq
			}
		}
	}
	analyse(evs)
	wait := func(ch chan struct{}, d time.Duration) bool {
		select {
		case <-ch:
			return true
		case <-time.After(d):
			return false
		}
	}
	stuck := false
	unwedge := func(ch chan struct{}) {
		for i := 0; i < 1500; i++ {
			vm.Abort()
			if wait(ch, time.Millisecond) {
				return
			}
		}
		stuck = true // even repeated Abort does not end the run: the VM stays locked, nothing more can be run on it
	}
	var hung string
	if cfg.Mode == "run" {
		runnerStarted := started["R"]
		if runnerStarted {
			if effBegin >= 0 {
				if !wait(runDone, time.Second) {
					hung = "Run still running 1s after an Abort that began after Run's reset had returned"
					unwedge(runDone)
				}
			} else if !wait(runDone, 300*time.Millisecond) {
				unwedge(runDone) // no effective abort was part of the schedule: not judged
			}
		}
		rr.RealRes = classify(runErr)
		if !runnerStarted {
			rr.RealRes = "none"
		}
	} else {
		if started["M"] {
			if cancelled {
				if !wait(evalDone, time.Second) {
					hung = "Eval.Run still running 1s after its context was cancelled"
					cancel()
					unwedge(evalDone)
				}
			} else {
				if !wait(evalDone, 300*time.Millisecond) {
					cancel()
					if !wait(evalDone, 2*time.Second) {
						hung = "Eval.Run still running 2s after its context was cancelled (cancelled after the schedule)"
						unwedge(evalDone)
					}
				}
			}
			rr.RealRes = classify(evalErr)
			if cancelled && evalErr == nil && hung == "" {
				hung = "Eval.Run returned without an error although its context was cancelled"
			}
		} else {
			rr.RealRes = "none"
		}
	}
	s.mu.Lock()
	evs = append([]gateEv(nil), s.events...)
	s.mu.Unlock()
	analyse(evs)
	rr.Effective = effBegin >= 0
	post := map[string]int{}
	if effEnd >= 0 {
		for _, ev := range evs {
			if ev.Seq > effEnd && ev.Point == "step" {
				post[fmt.Sprint(ev.VM)]++
			}
		}
	}
	rr.PostSteps = post
	// an aborted VM runs later scripts normally (once every Abort call of the schedule has returned: an
	// Abort that arrives during a later run rightly aborts that run)
	s.uninstall()
	{
		allAborted := make(chan struct{})
		go func() { abortWG.Wait(); close(allAborted) }()
		wait(allAborted, 3*time.Second)
	}
	if stuck {
		rr.FollowUp = "42 <nil>"
		hung += " (and repeated Abort calls did not stop it either)"
	} else {
		// three later scripts: an error outside any try statement ends the run with that error, a try statement
		// works, a plain script returns its value (each under a watchdog: a stale handler may loop)
		later := func(src string) string { return laterOn(vm, eval, cfg, src) }
		_ = later
		laterOnNew := func(src string) string {
			// a VM nobody ever aborted, using the same process-wide pool of child VMs
			bc2, err := ugo.Compile([]byte(src), ugo.CompilerOptions{})
			if err != nil {
				return "COMPILE " + err.Error()
			}
			return laterOn(ugo.NewVM(bc2), nil, abortCfg{Mode: "run-fresh"}, src)
		}
		later = func(src string) string {
			ch := make(chan string, 1)
			go func() {
				defer func() {
					if p := recover(); p != nil {
						ch <- fmt.Sprint("PANIC ", p)
					}
				}()
				if cfg.Mode == "run" {
					bc2, err := ugo.Compile([]byte(src), ugo.CompilerOptions{})
					if err != nil {
						ch <- "COMPILE " + err.Error()
						return
					}
					vm.SetBytecode(bc2)
					ret, err := vm.Run(ugo.Map{"cb": cbFuncFor(false)})
					ch <- fmt.Sprint(ret, " ", errName(err))
					return
				}
				ret, _, err := eval.Run(context.Background(), []byte(src))
				ch <- fmt.Sprint(ret, " ", errName(err))
			}()
			select {
			case x := <-ch:
				return x
			case <-time.After(5 * time.Second):
				for i := 0; i < 2000; i++ {
					vm.Abort()
					time.Sleep(time.Millisecond)
				}
				return "did not end within 5 s"
			}
		}
		if cfg.Mode == "run" || eval != nil {
			a := later("fu1 := 1\nthrow error(\"probe\")")
			b := later("fu2 := []\ntry { throw \"x\" } catch e { fu2 = append(fu2, 1) } finally { fu2 = append(fu2, 2) }\nreturn fu2")
			c := later("return 42")
			// callbacks through pooled child VMs work again: on this VM and on one that was never aborted
			cbSrc := "global cb\nfu3 := func() { return 5 }\nreturn [cb(fu3), cb(fu3)]"
			d, e := "[5, 5] <nil>", "[5, 5] <nil>"
			if cfg.Mode == "run" {
				d = later(cbSrc)
				e = laterOnNew(cbSrc)
			} else {
				// the session's variables are still values (the cancelled fragment declared f - unless the schedule
				// ends before Eval.Run was called at all)
				if x := later("return [f == undefined || isFunction(f), 1]"); evalStarted && x != "[true, 1] <nil>" {
					d = "session variable f: " + x
				}
			}
			if a == "<nil> error:probe" && b == "[1, 2] <nil>" && c == "42 <nil>" && d == "[5, 5] <nil>" && e == "[5, 5] <nil>" {
				rr.FollowUp = "42 <nil>"
			} else {
				rr.FollowUp = fmt.Sprintf("throw outside try: %s (want <nil> error:probe); try statement: %s (want [1, 2] <nil>); plain: %s (want 42 <nil>); pooled callbacks: %s (want [5, 5] <nil>); pooled callbacks on a VM that was never aborted: %s (want [5, 5] <nil>)", a, b, c, d, e)
			}
		}
	}
	switch {
	case hung != "":
		rr.Verdict, rr.What = "violation", hung
	case func() bool {
		for _, c := range post {
			if c > 1 {
				return true
			}
		}
		return false
	}():
		rr.Verdict, rr.What = "violation", fmt.Sprintf("more than one further instruction after Abort returned: %v", post)
	case rr.Effective && cfg.Mode == "run" && rr.RealRes != "aborted" && rr.RealRes != "ok" && rr.RealRes != "none":
		rr.Verdict, rr.What = "violation", "Run returned "+rr.RealRes+" after an effective Abort"
	case rr.FollowUp != "42 <nil>":
		rr.Verdict, rr.What = "violation", "follow-up run on the aborted VM returned "+rr.FollowUp
	case rr.Mismatch != "":
		rr.Verdict, rr.What = "drift", rr.Mismatch
	default:
		rr.Verdict = "ok"
	}
	return rr
}

var errStop = errors.New("stop")

func init() {
	subs["abortshape"] = func(args []string) error {
		c, ok := abortCfgs[args[0]]
		if !ok {
			return fmt.Errorf("unknown config %s", args[0])
		}
		sh, err := abortShape(c)
		if err != nil {
			return err
		}
		b, _ := json.Marshal(sh)
		fmt.Println(string(b))
		return nil
	}
	// abortreuse <results.ndjson>: an Invoker the host keeps for several calls.  The callback invokes the function k
	// times through ONE Invoker (pooled: acquired once; unpooled: the child VM the first Invoke made); the first
	// k-1 calls return, the k-th never does; Abort arrives once the k-th call is running.  The child VM is the same
	// object in every call: it must be reachable by Abort in every one of them (UgoAbort: a running child is in the
	// root's pool, AbortNotLost).
	subs["abortreuse"] = func(args []string) error {
		out, err := newOut(args[0])
		if err != nil {
			return err
		}
		defer out.close()
		n := 0
		for _, pooled := range []bool{true, false} {
			for k := 1; k <= 3; k++ {
				for _, catch := range []bool{false, true} {
					n++
					src := fmt.Sprintf("global (cb, mark)\nn := 0\nf := func() { n++; mark(n); if n < %d { return n }; for {} }\n", k)
					if catch {
						src += "try { cb(f) } catch e { return 1 } finally { y := 2 }\nreturn 7\n"
					} else {
						src += "cb(f)\nreturn 7\n"
					}
					bc, err := ugo.Compile([]byte(src), ugo.CompilerOptions{})
					if err != nil {
						return err
					}
					reached := make(chan struct{}, 1)
					mark := &ugo.Function{Name: "mark", Value: func(a ...ugo.Object) (ugo.Object, error) {
						if len(a) == 1 && a[0] == ugo.Int(k) {
							reached <- struct{}{}
						}
						return ugo.Undefined, nil
					}}
					cb := &ugo.Function{Name: "cb", ValueEx: func(c ugo.Call) (ugo.Object, error) {
						inv := ugo.NewInvoker(c.VM(), c.Get(0))
						if pooled {
							inv.Acquire()
							defer inv.Release()
						}
						var ret ugo.Object = ugo.Undefined
						for i := 0; i < 3; i++ {
							r, err := inv.Invoke()
							if err != nil {
								return nil, err
							}
							ret = r
						}
						return ret, nil
					}}
					vm := ugo.NewVM(bc)
					done := make(chan error, 1)
					go func() {
						defer func() {
							if p := recover(); p != nil {
								done <- fmt.Errorf("PANIC: %v", p)
							}
						}()
						_, err := vm.Run(ugo.Map{"cb": cb, "mark": mark})
						done <- err
					}()
					what := ""
					select {
					case <-reached:
						vm.Abort()
						select {
						case err := <-done:
							if classify(err) != "aborted" {
								what = fmt.Sprintf("Run returned %v after Abort, not the aborted error", err)
							}
						case <-time.After(3 * time.Second):
							what = "Abort during call " + fmt.Sprint(k) + " of one Invoker was lost: Run did not return within 3 s"
							for i := 0; i < 2000; i++ { // try to get the goroutine back
								vm.Abort()
								time.Sleep(time.Millisecond)
							}
						}
					case err := <-done:
						what = fmt.Sprintf("Run ended before call %d began: %v", k, err)
					case <-time.After(5 * time.Second):
						what = fmt.Sprintf("call %d never began", k)
					}
					r := N{"pooled": pooled, "k": k, "catch": catch, "ok": what == "", "src": src}
					if what != "" {
						r["what"] = what
					}
					out.put(r)
				}
			}
		}
		// Abort while a Go function the script called is about to panic, on a VM that recovers panics, the call being
		// covered by a try statement of the script: the panic is delivered to the script's handler, and the abort is
		// still not lost - Run returns the aborted error, not the value the handler produces
		for _, handler := range []string{"catch", "finally", "catch-finally"} {
			for _, where := range []string{"main", "function", "callback"} {
				n++
				body := map[string]string{
					"catch":         "try { pw() } catch e { r = \"caught\" }",
					"finally":       "try { try { pw() } finally { r = \"finally\" } } catch e2 { r = r + \"+outer\" }",
					"catch-finally": "try { pw() } catch e { r = \"caught\" } finally { r = r + \"+finally\" }",
				}[handler]
				src := "global (pw, cb)\nr := \"none\"\n"
				switch where {
				case "main":
					src += body + "\n"
				case "function":
					src += "g := func() { " + body + " }\ng()\n"
				case "callback":
					src += "g := func() { " + body + "; return r }\nr = cb(g)\n"
				}
				src += "for i := 0; i < 5; i++ { r = r + \".\" }\nreturn r\n"
				bc, err := ugo.Compile([]byte(src), ugo.CompilerOptions{})
				if err != nil {
					return fmt.Errorf("%v\n%s", err, src)
				}
				reached, goOn := make(chan struct{}, 1), make(chan struct{})
				pw := &ugo.Function{Name: "pw", Value: func(a ...ugo.Object) (ugo.Object, error) {
					reached <- struct{}{}
					<-goOn
					panic("pw panics after the abort")
				}}
				vm := ugo.NewVM(bc).SetRecover(true)
				done := make(chan string, 1)
				go func() {
					defer func() {
						if p := recover(); p != nil {
							done <- fmt.Sprint("PANIC escaped: ", p)
						}
					}()
					ret, err := vm.Run(ugo.Map{"pw": pw, "cb": cbFuncFor(false)})
					if classify(err) == "aborted" {
						done <- ""
					} else {
						done <- fmt.Sprintf("Run returned %v / %v after Abort, not the aborted error", ret, errName(err))
					}
				}()
				what := ""
				select {
				case <-reached:
					vm.Abort()
					close(goOn)
					select {
					case what = <-done:
					case <-time.After(3 * time.Second):
						what = "Run did not return within 3 s after Abort"
						for i := 0; i < 2000; i++ {
							vm.Abort()
							time.Sleep(time.Millisecond)
						}
					}
				case w := <-done:
					what = "Run ended before the Go function was called: " + w
				case <-time.After(5 * time.Second):
					what = "the Go function was never called"
				}
				r := N{"pooled": handler, "k": where, "catch": "panic", "ok": what == "", "src": src}
				if what != "" {
					r["what"] = what
				}
				out.put(r)
			}
		}
		out.put(N{"done": true, "n": n})
		return nil
	}
	// abortreplay <cfg> <sched.ndjson> <results.ndjson> [maxcases]
	subs["abortreplay"] = func(args []string) error {
		c, ok := abortCfgs[args[0]]
		if !ok {
			return fmt.Errorf("unknown config %s", args[0])
		}
		out, err := newOut(args[2])
		if err != nil {
			return err
		}
		defer out.close()
		n := 0
		every, off := 1, 0
		if len(args) > 3 {
			fmt.Sscan(args[3], &every)
			if every < 1 {
				every = 1
			}
			off = int(seed()) % every
		}
		nviol := 0
		err = readCases(args[1], func(raw []byte) error {
			n++
			if n%every != off {
				return nil
			}
			var sc schedCase
			if err := json.Unmarshal(raw, &sc); err != nil {
				return err
			}
			r := replayAbort(c, sc, n)
			out.put(r)
			if r.Verdict == "violation" {
				nviol++
				if nviol >= 30 {
					return errStop // enough evidence; every further schedule costs seconds of hang detection
				}
			}
			return nil
		})
		if err == errStop {
			err = nil
		}
		return err
	}
}
