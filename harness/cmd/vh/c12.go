package main

// C12 / C05, modules delivered by an importer that gives them canonical names (importers.FileImporter over an
// in-memory file tree): relative import names are resolved against the importing module's own directory - at
// its top level and inside its function literals alike -, two spellings of one file are one module (loaded
// once, one object), and import cycles written with relative names are reported by the compiler.  The file
// reader counts: a compiler that keeps importing is stopped by the reader after 200 reads.

import (
	"errors"
	"fmt"
	"strings"
	"time"

	"github.com/ozanh/ugo"
	"github.com/ozanh/ugo/importers"
)

type modFilesCase struct {
	name   string
	files  map[string]string
	want   string // expected result of /virt/app/main.ugo ("" = the compiler must refuse: cycle / missing module)
	once   []string
	refuse bool
}

func init() {
	// modfiles <results.ndjson>
	subs["modfiles"] = func(args []string) error {
		out, err := newOut(args[0])
		if err != nil {
			return err
		}
		defer out.close()
		state := "return {c: 0}"
		cases := []modFilesCase{
			{name: "subdir-function-import", want: "[7, 7, 7]", once: []string{"/virt/app/lib/state.ugo", "/virt/app/lib/mod.ugo"}, files: map[string]string{
				"/virt/app/main.ugo":      "a := import(\"./lib/mod.ugo\")\nx := a.get()\nx.c = 7\nreturn [a.get().c, import(\"./lib/state.ugo\").c, a.peek()]",
				"/virt/app/lib/mod.ugo":   "s := import(\"./state.ugo\")\nreturn {get: func() { return import(\"./state.ugo\") }, peek: func() { f := func() { return import(\"state.ugo\").c }; return f() }}",
				"/virt/app/lib/state.ugo": state}},
			{name: "same-name-two-directories", want: "[1, 2, 1]", once: []string{"/virt/app/state.ugo", "/virt/app/lib/state.ugo"}, files: map[string]string{
				"/virt/app/main.ugo":      "r := import(\"./state.ugo\")\nr.c = 1\nl := import(\"./lib/mod.ugo\")\nl.set(2)\nreturn [import(\"state.ugo\").c, l.get(), r.c]",
				"/virt/app/lib/mod.ugo":   "return {set: func(v) { s := import(\"./state.ugo\"); s.c = v }, get: func() { return import(\"./state.ugo\").c }}",
				"/virt/app/state.ugo":     state,
				"/virt/app/lib/state.ugo": state}},
			{name: "parent-directory", want: "[5, 5]", once: []string{"/virt/app/state.ugo"}, files: map[string]string{
				"/virt/app/main.ugo":    "s := import(\"./state.ugo\")\ns.c = 5\nreturn [import(\"./lib/mod.ugo\").get(), import(\"lib/../state.ugo\").c]",
				"/virt/app/lib/mod.ugo": "return {get: func() { return import(\"../state.ugo\").c }}",
				"/virt/app/state.ugo":   state}},
			{name: "cycle-self", refuse: true, files: map[string]string{
				"/virt/app/main.ugo": "return import(\"./a.ugo\")",
				"/virt/app/a.ugo":    "return import(\"./a.ugo\")"}},
			{name: "cycle-two", refuse: true, files: map[string]string{
				"/virt/app/main.ugo": "return import(\"./a.ugo\")",
				"/virt/app/a.ugo":    "return import(\"./b.ugo\")",
				"/virt/app/b.ugo":    "return import(\"a.ugo\")"}},
			{name: "cycle-through-function", refuse: true, files: map[string]string{
				"/virt/app/main.ugo": "return import(\"./a.ugo\")",
				"/virt/app/a.ugo":    "return {f: func() { return import(\"./b.ugo\") }}",
				"/virt/app/b.ugo":    "return {g: func() { return import(\"./a.ugo\") }}"}},
			{name: "cycle-across-directories", refuse: true, files: map[string]string{
				"/virt/app/main.ugo":  "return import(\"./a.ugo\")",
				"/virt/app/a.ugo":     "return import(\"./lib/b.ugo\")",
				"/virt/app/lib/b.ugo": "return import(\"../a.ugo\")"}},
			{name: "missing-module", refuse: true, files: map[string]string{
				"/virt/app/main.ugo":    "return import(\"./lib/mod.ugo\")",
				"/virt/app/lib/mod.ugo": "return {get: func() { return import(\"./nope.ugo\") }}"}},
		}
		n := 0
		for _, c := range cases {
			for _, noopt := range []bool{false, true} {
				n++
				c := c
				reads := map[string]int{}
				total := 0
				reader := func(path string) ([]byte, error) {
					total++
					if total > 200 {
						return nil, errors.New("READ-CAP: the compiler has read 200 files")
					}
					reads[path]++
					src, ok := c.files[path]
					if !ok {
						return nil, fmt.Errorf("open %s: no such file", path)
					}
					return []byte(src), nil
				}
				type res struct{ v, e string }
				done := make(chan res, 1)
				go func() {
					defer func() {
						if p := recover(); p != nil {
							done <- res{e: fmt.Sprint("PANIC: ", p)}
						}
					}()
					mm := ugo.NewModuleMap().SetExtImporter(&importers.FileImporter{WorkDir: "/virt/app", FileReader: reader})
					bc, err := ugo.Compile([]byte(c.files["/virt/app/main.ugo"]), ugo.CompilerOptions{ModuleMap: mm, NoOptimize: noopt})
					if err != nil {
						done <- res{e: "COMPILE: " + strings.ReplaceAll(err.Error(), "\n", " ")}
						return
					}
					ret, err := ugo.NewVM(bc).Run(nil)
					if err != nil {
						done <- res{e: "RUN: " + strings.ReplaceAll(err.Error(), "\n", " ")}
						return
					}
					done <- res{v: ret.String()}
				}()
				var r res
				select {
				case r = <-done:
				case <-time.After(20 * time.Second):
					r = res{e: "HANG: compile / run did not end within 20 s"}
				}
				what, term := "", false
				switch {
				case strings.HasPrefix(r.e, "PANIC") || strings.HasPrefix(r.e, "HANG") || strings.Contains(r.e, "READ-CAP"):
					what, term = "the compiler does not report the situation itself: "+r.e, true
				case c.refuse && !strings.HasPrefix(r.e, "COMPILE"):
					what = fmt.Sprintf("expected a compile error (cycle / missing module), got %q %s", r.v, r.e)
				case !c.refuse && r.e != "":
					what = "a valid module layout is refused: " + r.e
				case !c.refuse && r.v != c.want:
					what = fmt.Sprintf("result %s, expected %s (one file is one module object, whatever the spelling of its name and wherever the import expression stands)", r.v, c.want)
				}
				if what == "" && !c.refuse {
					for _, p := range c.once {
						if reads[p] != 1 {
							what = fmt.Sprintf("%s was loaded %d times", p, reads[p])
						}
					}
				}
				rec := N{"name": c.name, "noopt": noopt, "ok": what == "", "termination": term}
				if what != "" {
					rec["what"] = what
					rec["files"] = c.files
				}
				out.put(rec)
			}
		}
		out.put(N{"done": true, "n": n})
		return nil
	}
}
