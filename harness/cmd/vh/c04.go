package main

// C04: constant kinds x positions (tla/UgoConst.tla): direct run, after one
// and after two encode/decode rounds, compared bit-exactly.

import (
	"bytes"
	"encoding/json"
	"fmt"
	"math"
	"strings"

	"github.com/ozanh/ugo"
	"github.com/ozanh/ugo/encoder"
)

// deepRepr renders a value with exact bits for floats.
func deepRepr(o ugo.Object) string {
	switch v := o.(type) {
	case ugo.Float:
		return fmt.Sprintf("float:%016x", math.Float64bits(float64(v)))
	case ugo.Int:
		return fmt.Sprintf("int:%d", int64(v))
	case ugo.Uint:
		return fmt.Sprintf("uint:%d", uint64(v))
	case ugo.Char:
		return fmt.Sprintf("char:%d", int32(v))
	case ugo.String:
		return fmt.Sprintf("string:%x", string(v))
	case ugo.Bytes:
		return fmt.Sprintf("bytes:%x", []byte(v))
	case ugo.Array:
		var p []string
		for _, e := range v {
			p = append(p, deepRepr(e))
		}
		return "[" + strings.Join(p, ",") + "]"
	case ugo.Map:
		b, _ := json.Marshal(canon(semObj(v)))
		return "map:" + string(b)
	case *ugo.RuntimeError:
		return "error:" + v.Error()
	}
	if o == nil {
		return "nil"
	}
	return o.TypeName() + ":" + o.String()
}

func init() {
	// c04 <cases.ndjson> <results.ndjson>
	subs["c04"] = func(args []string) error {
		out, err := newOut(args[1])
		if err != nil {
			return err
		}
		defer out.close()
		// a host encodes many programs before it decodes any (a cache, a batch): the bytes handed out for one program
		// are decoded only after three further programs have been encoded
		type held struct {
			data     []byte
			direct   string
			tok, pos string
			src      string
			mm       *ugo.ModuleMap
			globals  ugo.Map
		}
		var queue []held
		decodeHeld := func(h held) {
			r := N{"tok": h.tok, "pos": h.pos + "+held", "src": h.src, "ok": true, "direct": h.direct}
			func() {
				defer func() {
					if p := recover(); p != nil {
						r["ok"], r["what"] = false, fmt.Sprint("panic: ", p)
					}
				}()
				dec, err := encoder.DecodeBytecodeFrom(bytes.NewReader(h.data), h.mm)
				if err != nil {
					r["ok"], r["what"] = false, fmt.Sprintf("bytes of MarshalBinary decoded after three other programs were encoded: decode error %v", err)
					return
				}
				got := ""
				if ret, err := ugo.NewVM(dec).Run(h.globals); err != nil {
					got = "error: " + err.Error()
				} else {
					got = deepRepr(ret)
				}
				if got != h.direct {
					r["ok"], r["what"] = false, fmt.Sprintf("bytes of MarshalBinary decoded after three other programs were encoded: %s, direct run %s", got, h.direct)
				}
			}()
			out.put(r)
		}
		defer func() {
			for _, h := range queue {
				decodeHeld(h)
			}
		}()
		return readCases(args[0], func(raw []byte) error {
			var c struct{ Tok, Pos string }
			if err := json.Unmarshal(raw, &c); err != nil {
				return err
			}
			lit := c.Tok
			pre := ""
			globals := ugo.Map{}
			switch c.Tok {
			case "nan":
				lit = "(zf / zf)"
				pre = "global zf\n"
				globals["zf"] = ugo.Float(0)
			case "inf":
				lit = "1e308 * 10.0"
			case "-inf":
				lit = "-1e308 * 10.0"
			case "bytes":
				lit = `bytes("a\xffb")`
			case "emptybytes":
				lit = `bytes()`
			}
			mm := ugo.NewModuleMap()
			mm.AddBuiltinModule("bm", map[string]ugo.Object{"i": ugo.Int(math.MinInt64), "f": ugo.Float(math.Copysign(0, -1)),
				"s": ugo.String("\xff"), "b": ugo.Bytes{0}, "u": ugo.Uint(math.MaxUint64), "c": ugo.Char(-1), "t": ugo.True,
				"a": ugo.Array{ugo.Int(1)}, "m": ugo.Map{"k": ugo.Undefined}, "fn": &ugo.Function{Name: "fn", Value: func(args ...ugo.Object) (ugo.Object, error) { return ugo.Int(7), nil }},
				// Go functions nested in container attributes
				"sub": ugo.Map{"answer": &ugo.Function{Name: "answer", Value: func(args ...ugo.Object) (ugo.Object, error) { return ugo.Int(42), nil }},
					"deep": ugo.Map{"f": &ugo.Function{Name: "f", Value: func(args ...ugo.Object) (ugo.Object, error) { return ugo.String("deep"), nil }}}},
				"fns": ugo.Array{&ugo.Function{Name: "first", Value: func(args ...ugo.Object) (ugo.Object, error) { return ugo.Int(len(args)), nil }}},
				// several values of one kind that has no native encoding (they go through gob), a builtin function
				"e1": &ugo.Error{Name: "E1", Message: "m1"}, "e2": &ugo.Error{Name: "E2", Message: "m2"}, "e3": &ugo.Error{Name: "E3", Message: "m3"},
				"blen": ugo.BuiltinObjects[ugo.BuiltinLen], "bstring": ugo.BuiltinObjects[ugo.BuiltinString],
				// attribute names of every shape: empty, with spaces / quotes / non-ASCII / invalid UTF-8, long
				"": ugo.Int(7), " ": ugo.String("space"), "a b\"c": ugo.Int(8), "\u00e9\xff": ugo.Int(9), strings.Repeat("k", 300): ugo.Int(10)})
			var src string
			switch c.Pos {
			case "main":
				src = pre + "return " + lit
			case "fn":
				src = pre + "f := func() { return " + lit + " }\nreturn f()"
			case "nestedfn":
				src = pre + "f := func() { return func() { return " + lit + " } }\nreturn f()()"
			case "module":
				if pre != "" {
					return nil // a module cannot see the script's globals declaration
				}
				mm.AddSourceModule("m", []byte("return {v: "+lit+"}"))
				src = `return import("m").v`
			case "element":
				src = pre + "return [" + lit + ", " + lit + "]"
			case "mapvalue":
				src = pre + "return {k: " + lit + "}"
			case "default-param":
				src = pre + "f := func(a) { return [a, " + lit + "] }\nreturn f(" + lit + ")"
			case "closure-free":
				src = pre + "x := " + lit + "\nf := func() { return x }\nreturn f()"
			case "builtin-module":
				src = pre + "bm := import(\"bm\")\nks := []\nfor k, _ in bm { ks = append(ks, k) }\nreturn [bm.i, bm.f, bm.s, bm.b, bm.u, bm.c, bm.t, bm.a, bm.m, bm.fn(), bm.sub.answer(), bm.sub.deep.f(), bm.fns[0](1, 2), bm[\"\"], bm[\" \"], bm[\"a b\\\"c\"], bm[\"\\u00e9\\xff\"], bm[\"" + strings.Repeat("k", 300) + "\"], len(bm), sort(ks), [bm.e1.Message, bm.e2.Message, bm.e3.Name, string(bm.e2)], bm.blen(\"abc\"), bm.bstring(5), " + lit + "]"
			}
			r := N{"tok": c.Tok, "pos": c.Pos, "src": src, "ok": true}
			func() {
				defer func() {
					if p := recover(); p != nil {
						r["ok"], r["what"] = false, fmt.Sprint("panic: ", p)
					}
				}()
				for _, noopt := range []bool{false, true} {
					bc, err := ugo.Compile([]byte(src), ugo.CompilerOptions{ModuleMap: mm, NoOptimize: noopt})
					if err != nil {
						r["skip"] = "does not compile: " + err.Error()
						return
					}
					run := func(b *ugo.Bytecode) string {
						ret, err := ugo.NewVM(b).Run(globals)
						if err != nil {
							return "error: " + err.Error()
						}
						return deepRepr(ret)
					}
					direct := run(bc)
					if !noopt {
						if data, err := (*encoder.Bytecode)(bc).MarshalBinary(); err == nil {
							queue = append(queue, held{data, direct, c.Tok, c.Pos, src, mm, globals})
							if len(queue) > 3 {
								decodeHeld(queue[0])
								queue = queue[1:]
							}
						}
					}
					cur := bc
					for round := 1; round <= 2; round++ {
						var buf bytes.Buffer
						if err := encoder.EncodeBytecodeTo(cur, &buf); err != nil {
							r["ok"], r["what"] = false, fmt.Sprintf("round %d: encode error %v", round, err)
							return
						}
						dec, err := encoder.DecodeBytecodeFrom(&buf, mm)
						if err != nil {
							r["ok"], r["what"] = false, fmt.Sprintf("round %d: decode error %v", round, err)
							return
						}
						if got := run(dec); got != direct {
							r["ok"], r["what"] = false, fmt.Sprintf("noopt=%v round %d: %s, direct run %s", noopt, round, got, direct)
							return
						}
						cur = dec
					}
					r["direct"] = direct
				}
			}()
			out.put(r)
			return nil
		})
	}
}
