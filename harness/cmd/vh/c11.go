package main

// C11: version-1 bytecode. TLC-generated v1 listings (tla/UgoWiden.tla) and
// real programs narrowed to v1 are pushed through the real decoder.

import (
	"bytes"
	"encoding/binary"
	"encoding/json"
	"fmt"
	"os"
	"reflect"
	"sort"
	"strings"
	"time"

	"github.com/ozanh/ugo"
	"github.com/ozanh/ugo/encoder"
	"github.com/ozanh/ugo/encoder/opv1"
)

func intsToBytes(x []int) []byte {
	o := make([]byte, len(x))
	for i, v := range x {
		o[i] = byte(v)
	}
	return o
}

// asV1Container encodes bc (whose instructions are already in v1 layout) and
// stamps the container as format version 1.
func asV1Container(bc *ugo.Bytecode) ([]byte, error) {
	var buf bytes.Buffer
	if err := encoder.EncodeBytecodeTo(bc, &buf); err != nil {
		return nil, err
	}
	data := buf.Bytes()
	binary.BigEndian.PutUint16(data[4:6], 1)
	return data, nil
}

func isJumpOp(op byte) bool {
	switch op {
	case ugo.OpJump, ugo.OpJumpFalsy, ugo.OpAndJump, ugo.OpOrJump, ugo.OpSetupTry:
		return true
	}
	return false
}

// narrowFn rewrites a current-format function into the v1 layout (inverse of
// the conversion under test): jump-class operands shrink to 2 bytes and all
// targets / source-map keys move to the v1 positions.
func narrowFn(cf *ugo.CompiledFunction) (*ugo.CompiledFunction, error) {
	insts := cf.Instructions
	pm := map[int]int{}
	n := 0
	for i := 0; i <= len(insts); {
		pm[i] = n
		if i == len(insts) {
			break
		}
		op := insts[i]
		w2, w1 := 0, 0
		for _, k := range ugo.OpcodeOperands[op] {
			w2 += k
		}
		for _, k := range opv1.OpcodeOperands[op] {
			w1 += k
		}
		i += 1 + w2
		n += 1 + w1
	}
	var out []byte
	for i := 0; i < len(insts); {
		op := insts[i]
		ws := ugo.OpcodeOperands[op]
		operands := make([]int, 0, 2)
		off := i + 1
		for _, w := range ws {
			v := 0
			for k := 0; k < w; k++ {
				v = v<<8 | int(insts[off+k])
			}
			operands = append(operands, v)
			off += w
		}
		out = append(out, op)
		for k, w := range opv1.OpcodeOperands[op] {
			v := operands[k]
			if isJumpOp(op) {
				nv, ok := pm[v]
				if !ok {
					return nil, fmt.Errorf("jump target %d is not an instruction boundary", v)
				}
				v = nv
			}
			if v >= 1<<(8*w) {
				return nil, fmt.Errorf("operand does not fit v1 width")
			}
			for s := w - 1; s >= 0; s-- {
				out = append(out, byte(v>>(8*s)))
			}
		}
		i = off
	}
	sm := map[int]int{}
	for k, v := range cf.SourceMap {
		nk, ok := pm[k]
		if !ok {
			return nil, fmt.Errorf("source map key %d is not an instruction boundary", k)
		}
		sm[nk] = v
	}
	c := *cf
	c.Instructions = out
	c.SourceMap = sm
	return &c, nil
}

func narrowBytecode(bc *ugo.Bytecode) (*ugo.Bytecode, error) {
	nb := *bc
	m, err := narrowFn(bc.Main)
	if err != nil {
		return nil, err
	}
	nb.Main = m
	nb.Constants = append([]ugo.Object(nil), bc.Constants...)
	for i, c := range nb.Constants {
		if cf, ok := c.(*ugo.CompiledFunction); ok {
			n, err := narrowFn(cf)
			if err != nil {
				return nil, err
			}
			nb.Constants[i] = n
		}
	}
	return &nb, nil
}

func smPairs(m map[int]int) [][2]int {
	var p [][2]int
	for k, v := range m {
		p = append(p, [2]int{k, v})
	}
	sort.Slice(p, func(i, j int) bool { return p[i][0] < p[j][0] })
	return p
}

func init() {
	// widths <v1.json> <v2.json>: the real operand width tables
	subs["widths"] = func(args []string) error {
		dump := func(path string, t [][]int) error {
			b, _ := json.Marshal(t)
			return os.WriteFile(path, b, 0o644)
		}
		var t1, t2 [][]int
		for _, w := range opv1.OpcodeOperands {
			t1 = append(t1, append([]int{}, w...))
		}
		for _, w := range ugo.OpcodeOperands {
			t2 = append(t2, append([]int{}, w...))
		}
		if err := dump(args[0], t1); err != nil {
			return err
		}
		return dump(args[1], t2)
	}
	// c11list <cases.ndjson> <results.ndjson>
	subs["c11list"] = func(args []string) error {
		type lcase struct {
			V1  []int   `json:"v1"`
			V2  []int   `json:"v2"`
			Sm1 [][]int `json:"sm1"`
			Sm2 [][]int `json:"sm2"`
		}
		out, err := newOut(args[1])
		if err != nil {
			return err
		}
		defer out.close()
		return readCases(args[0], func(raw []byte) error {
			var c lcase
			if err := json.Unmarshal(raw, &c); err != nil {
				return err
			}
			sm := map[int]int{}
			for _, p := range c.Sm1 {
				sm[p[0]] = p[1]
			}
			r := map[string]any{"v1": c.V1, "ok": true}
			bc := &ugo.Bytecode{Main: &ugo.CompiledFunction{Instructions: intsToBytes(c.V1), SourceMap: sm}}
			data, err := asV1Container(bc)
			if err != nil {
				return err
			}
			func() {
				defer func() {
					if p := recover(); p != nil {
						r["ok"], r["what"] = false, fmt.Sprint("decoder panics: ", p)
					}
				}()
				got, err := encoder.DecodeBytecodeFrom(bytes.NewReader(data), nil)
				if err != nil {
					r["ok"], r["what"] = false, "decoder error: "+err.Error()
					return
				}
				if !bytes.Equal(got.Main.Instructions, intsToBytes(c.V2)) {
					r["ok"], r["what"] = false, fmt.Sprintf("instructions %v, specification %v", got.Main.Instructions, c.V2)
					return
				}
				want := map[int]int{}
				for _, p := range c.Sm2 {
					want[p[0]] = p[1]
				}
				if !reflect.DeepEqual(got.Main.SourceMap, want) {
					r["ok"], r["what"] = false, fmt.Sprintf("source map %v, specification %v", smPairs(got.Main.SourceMap), smPairs(want))
				}
			}()
			out.put(r)
			return nil
		})
	}
	// c11prog <trycases.ndjson> <results.ndjson>: programs of UgoTry narrowed to v1, decoded, executed
	subs["c11prog"] = func(args []string) error {
		out, err := newOut(args[1])
		if err != nil {
			return err
		}
		defer out.close()
		nbad := 0
		return readCases(args[0], func(raw []byte) error {
			var c tCase
			if err := json.Unmarshal(raw, &c); err != nil {
				return err
			}
			src := renderTry(c.Prog)
			refS := norm(c.Exp.O) + "|" + norm(c.Exp.L)
			r := map[string]any{"src": src, "ref": refS, "ok": true}
			defer func() {
				out.put(r)
				if ok, _ := r["ok"].(bool); !ok {
					nbad++
				}
			}()
			if nbad >= 30 {
				// enough evidence: every failing program may cost the whole watchdog time
				delete(r, "ok")
				r["skip"] = "stopped after 30 failing programs"
				return nil
			}
			bc, err := ugo.Compile([]byte(src), ugo.CompilerOptions{})
			if err != nil {
				r["ok"], r["what"] = false, "compile: "+err.Error()
				return nil
			}
			nb, err := narrowBytecode(bc)
			if err != nil {
				r["skip"] = err.Error()
				return nil
			}
			data, err := asV1Container(nb)
			if err != nil {
				return err
			}
			func() {
				defer func() {
					if p := recover(); p != nil {
						r["ok"], r["what"] = false, fmt.Sprint("panic: ", p)
					}
				}()
				got, err := encoder.DecodeBytecodeFrom(bytes.NewReader(data), nil)
				if err != nil {
					r["ok"], r["what"] = false, "decoder error: "+err.Error()
					return
				}
				// a wrong target may send the decoded program anywhere: watchdog
				type rres struct{ o, l any }
				rch := make(chan rres, 1)
				gvm := ugo.NewVM(got).SetRecover(true)
				gg := ugo.Map{"log": ugo.Array{}}
				go func() {
					defer func() {
						if p := recover(); p != nil {
							rch <- rres{[]any{"goerr", fmt.Sprint("panic: ", p)}, nil}
						}
					}()
					ret, rerr := gvm.Run(gg)
					rch <- rres{outcomeOf(ret, rerr), objToAny(gg["log"])}
				}()
				var o, l any
				select {
				case x := <-rch:
					o, l = x.o, x.l
				case <-time.After(5 * time.Second):
					for i := 0; i < 2000; i++ {
						gvm.Abort()
						time.Sleep(time.Millisecond)
					}
					r["ok"], r["what"] = false, "the program decoded from version 1 did not end within 5 s"
					return
				}
				real := norm(o) + "|" + norm(l)
				r["real"] = real
				if real != refS {
					r["ok"], r["what"] = false, "program decoded from version 1 runs to "+real
					return
				}
				// control flow and positions identical to the freshly compiled bytecode
				fns := func(b *ugo.Bytecode) []*ugo.CompiledFunction {
					f := []*ugo.CompiledFunction{b.Main}
					for _, c := range b.Constants {
						if cf, ok := c.(*ugo.CompiledFunction); ok {
							f = append(f, cf)
						}
					}
					return f
				}
				a, b := fns(bc), fns(got)
				for i := range a {
					if !bytes.Equal(a[i].Instructions, b[i].Instructions) {
						r["ok"], r["what"] = false, fmt.Sprintf("function %d: instructions differ from the compiled ones", i)
						return
					}
					if !reflect.DeepEqual(a[i].SourceMap, b[i].SourceMap) {
						r["ok"], r["what"] = false, fmt.Sprintf("function %d: source map differs from the compiled one", i)
						return
					}
				}
			}()
			return nil
		})
	}

	// c11big <results.ndjson>: functions whose version 1 form fits 16-bit positions while the widened form
	// does not - relocated targets beyond 65535 in the main function and in a nested function
	subs["c11big"] = func(args []string) error {
		out, err := newOut(args[0])
		if err != nil {
			return err
		}
		defer out.close()
		body := func(n int) string {
			var sb strings.Builder
			sb.WriteString("b := 0\n")
			for i := 0; i < n; i++ {
				sb.WriteString("if a { b += 1 }\n")
			}
			sb.WriteString("try { if a { b += 1000 } else { throw \"t\" } } catch e { b += 7 } finally { b += 5 }\n")
			sb.WriteString("for i := 0; i < 3; i++ { if i == 1 { continue }; b += i }\nreturn a ? b : [][b]\n")
			return sb.String()
		}
		progs := map[string]func(n int) string{
			"main":   func(n int) string { return "param a\n" + body(n) },
			"nested": func(n int) string { return "param a\nf := func(a) {\n" + body(n) + "}\nreturn f(a)\n" },
		}
		lens := func(src string) (v1, v2 int, bc, nb *ugo.Bytecode, err error) {
			bc, err = ugo.Compile([]byte(src), ugo.CompilerOptions{})
			if err != nil {
				return
			}
			big := bc.Main
			for _, c := range bc.Constants {
				if cf, ok := c.(*ugo.CompiledFunction); ok && len(cf.Instructions) > len(big.Instructions) {
					big = cf
				}
			}
			v2 = len(big.Instructions)
			nb, err = narrowBytecode(bc)
			if err != nil {
				return
			}
			nbig := nb.Main
			for _, c := range nb.Constants {
				if cf, ok := c.(*ugo.CompiledFunction); ok && len(cf.Instructions) > len(nbig.Instructions) {
					nbig = cf
				}
			}
			v1 = len(nbig.Instructions)
			return
		}
		n := 0
		for name, mk := range progs {
			// largest N whose widened form stays below 2^16, largest N whose version 1 form exists
			lo, hi := 1, 8000
			for lo < hi {
				mid := (lo + hi + 1) / 2
				if _, v2, _, _, _ := lens(mk(mid)); v2 < 1<<16 {
					lo = mid
				} else {
					hi = mid - 1
				}
			}
			n0 := lo
			lo, hi = n0, 8000
			for lo < hi {
				mid := (lo + hi + 1) / 2
				if _, _, _, _, err := lens(mk(mid)); err == nil {
					lo = mid
				} else {
					hi = mid - 1
				}
			}
			n1 := lo
			for _, k := range []int{n0 - 1, n0, n0 + 1, n0 + 2, n0 + 40, (n0 + n1) / 2, n1 - 1, n1} {
				src := mk(k)
				v1, v2, bc, nb, err := lens(src)
				r := map[string]any{"prog": name, "n": k, "v1len": v1, "v2len": v2, "ok": true}
				if err != nil {
					r["skip"] = err.Error()
					out.put(r)
					continue
				}
				n++
				func() {
					defer func() {
						if p := recover(); p != nil {
							r["ok"], r["what"] = false, fmt.Sprint("panic: ", p)
						}
					}()
					data, err := asV1Container(nb)
					if err != nil {
						r["ok"], r["what"] = false, "harness: "+err.Error()
						return
					}
					got, err := encoder.DecodeBytecodeFrom(bytes.NewReader(data), nil)
					if err != nil {
						r["ok"], r["what"] = false, "decoder error: "+err.Error()
						return
					}
					for _, arg := range []ugo.Object{ugo.True, ugo.False} {
						w, werr := ugo.NewVM(bc).Run(nil, arg)
						// a wrong target may send the decoded program anywhere: run it under a watchdog
						gvm := ugo.NewVM(got).SetRecover(true)
						type gres struct {
							o ugo.Object
							e error
						}
						gch := make(chan gres, 1)
						go func() {
							defer func() {
								if p := recover(); p != nil {
									gch <- gres{nil, fmt.Errorf("PANIC: %v", p)}
								}
							}()
							o, e := gvm.Run(nil, arg)
							gch <- gres{o, e}
						}()
						var g ugo.Object
						var gerr error
						select {
						case x := <-gch:
							g, gerr = x.o, x.e
						case <-time.After(10 * time.Second):
							for i := 0; i < 2000; i++ {
								gvm.Abort()
								time.Sleep(time.Millisecond)
							}
							r["ok"], r["what"] = false, fmt.Sprintf("a=%v: the program decoded from version 1 did not end within 10 s", arg)
							return
						}
						if fmt.Sprint(w, werr != nil) != fmt.Sprint(g, gerr != nil) {
							r["ok"], r["what"] = false, fmt.Sprintf("a=%v: decoded from version 1 runs to %v / %v, compiled runs to %v / %v", arg, g, errShort(gerr), w, errShort(werr))
							return
						}
					}
					if !bytes.Equal(bc.Main.Instructions, got.Main.Instructions) || !reflect.DeepEqual(bc.Main.SourceMap, got.Main.SourceMap) {
						r["ok"], r["what"] = false, "main: instructions / source map differ from the compiled ones"
					}
					for i := range bc.Constants {
						a, ok1 := bc.Constants[i].(*ugo.CompiledFunction)
						b, ok2 := got.Constants[i].(*ugo.CompiledFunction)
						if ok1 && ok2 && (!bytes.Equal(a.Instructions, b.Instructions) || !reflect.DeepEqual(a.SourceMap, b.SourceMap)) {
							r["ok"], r["what"] = false, fmt.Sprintf("constant %d: instructions / source map differ from the compiled ones", i)
						}
					}
				}()
				out.put(r)
			}
		}
		// functions whose version 1 instruction bytes are identical while their positions differ, functions with
		// closures next to jumps, logical operators jumping to jumps: instructions and source maps of every
		// function after conversion = those of the fresh compilation
		fixed := map[string]string{
			"twins":     "param a\nf := func(x) {\n\tif x { return 1 }\n\treturn [][x]\n}\n\n\ng := func(x) {\n\tif x { return 1 }\n\treturn [][x]\n}\nreturn a ? f(false) : g(false)\n",
			"twins-try": "param a\nf := func(x) { try { return [][x] } finally { x = 1 } }\n\ng := func(x) { try { return [][x] } finally { x = 1 } }\nreturn a ? f(5) : g(5)\n",
			"closures":  "param a\nfns := []\nfor k := 0; k < 3; k++ {\n\tn := k\n\tif k > 0 { fns = append(fns, func() { return k + n }) }\n}\nreturn a ? fns[0]() : fns[9]()\n",
			"logical":   "param a\nb := a && 1\nfor i := 0; i < 2; i++ { if a || i { continue }\n\tb = i }\nreturn a ? b : [][b]\n",
		}
		for name, src := range fixed {
			r := map[string]any{"prog": name, "n": 0, "v1len": 0, "v2len": 0, "ok": true}
			bc, err := ugo.Compile([]byte(src), ugo.CompilerOptions{})
			if err != nil {
				return fmt.Errorf("fixed program %s does not compile: %v", name, err)
			}
			nb, err := narrowBytecode(bc)
			if err != nil {
				r["skip"] = err.Error()
				out.put(r)
				continue
			}
			n++
			func() {
				defer func() {
					if p := recover(); p != nil {
						r["ok"], r["what"] = false, fmt.Sprint("panic: ", p)
					}
				}()
				data, err := asV1Container(nb)
				if err != nil {
					r["ok"], r["what"] = false, "harness: "+err.Error()
					return
				}
				got, err := encoder.DecodeBytecodeFrom(bytes.NewReader(data), nil)
				if err != nil {
					r["ok"], r["what"] = false, "decoder error: "+err.Error()
					return
				}
				if !bytes.Equal(bc.Main.Instructions, got.Main.Instructions) || !reflect.DeepEqual(bc.Main.SourceMap, got.Main.SourceMap) {
					r["ok"], r["what"] = false, "main: instructions / source map differ from the compiled ones"
				}
				for i := range bc.Constants {
					a, ok1 := bc.Constants[i].(*ugo.CompiledFunction)
					b, ok2 := got.Constants[i].(*ugo.CompiledFunction)
					if ok1 && ok2 && (!bytes.Equal(a.Instructions, b.Instructions) || !reflect.DeepEqual(a.SourceMap, b.SourceMap)) {
						r["ok"], r["what"] = false, fmt.Sprintf("constant %d: instructions / source map differ from the compiled ones", i)
					}
				}
				for _, arg := range []ugo.Object{ugo.True, ugo.False} {
					w, werr := ugo.NewVM(bc).SetRecover(true).Run(nil, arg)
					g, gerr := ugo.NewVM(got).SetRecover(true).Run(nil, arg)
					if fmt.Sprintf("%v|%+v", w, werr) != fmt.Sprintf("%v|%+v", g, gerr) {
						r["ok"], r["what"] = false, fmt.Sprintf("a=%v: decoded from version 1 gives %v / %+v, compiled gives %v / %+v", arg, g, gerr, w, werr)
					}
				}
			}()
			out.put(r)
		}
		out.put(map[string]any{"done": true, "n": n})
		return nil
	}
}
