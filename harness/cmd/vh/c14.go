package main

// C14, histories across runs of the parent VM: an Invoker the host keeps (acquired
// and not yet released, or unpooled and already used) while the parent VM finishes a
// run and starts another one with other globals.  The function the first run
// published is then called inside the script and, with the same argument, through
// the kept Invoker: both calls read and update the globals of the run that is going
// on (UgoSem: a function has no globals of its own, InvSame).

import (
	"fmt"
	"runtime"
	"strings"
	"time"

	"github.com/ozanh/ugo"
)

func init() {
	// c14keep <results.ndjson>
	subs["c14keep"] = func(args []string) error {
		out, err := newOut(args[0])
		if err != nil {
			return err
		}
		defer out.close()
		src := "global (counter, publish, prev, callkept, log)\n" +
			"h := func(d) { counter += d; log = append(log, counter); return counter }\n" +
			"p := prev()\n" +
			"if p == undefined { publish(h); return [h(1), callkept(1)] }\n" +
			"return [p(1), callkept(1), h(1)]\n"
		n := 0
		for _, pooled := range []bool{true, false} {
			for _, between := range []string{"none", "clear"} {
				for _, warm := range []bool{false, true} {
					n++
					bc, err := ugo.Compile([]byte(src), ugo.CompilerOptions{})
					if err != nil {
						return err
					}
					vm := ugo.NewVM(bc)
					var stored ugo.Object = ugo.Undefined
					var inv *ugo.Invoker
					publish := &ugo.Function{Name: "publish", ValueEx: func(c ugo.Call) (ugo.Object, error) {
						stored = c.Get(0)
						inv = ugo.NewInvoker(c.VM(), stored)
						if pooled {
							inv.Acquire()
						} else if warm {
							// an unpooled Invoker gets its child VM with the first call
							if _, err := inv.Invoke(ugo.Int(0)); err != nil {
								return nil, err
							}
						}
						return ugo.Undefined, nil
					}}
					prev := &ugo.Function{Name: "prev", Value: func(a ...ugo.Object) (ugo.Object, error) { return stored, nil }}
					callkept := &ugo.Function{Name: "callkept", Value: func(a ...ugo.Object) (ugo.Object, error) {
						if inv == nil {
							return ugo.Undefined, nil
						}
						return inv.Invoke(a...)
					}}
					mk := func(start int) ugo.Map {
						return ugo.Map{"counter": ugo.Int(start), "publish": publish, "prev": prev, "callkept": callkept, "log": ugo.Array{}}
					}
					g1, g2 := mk(10), mk(100)
					what := ""
					func() {
						defer func() {
							if p := recover(); p != nil {
								what = fmt.Sprint("panic: ", p)
							}
						}()
						r1, err := vm.Run(g1)
						if err != nil || r1.String() != "[11, 12]" {
							what = fmt.Sprintf("first run: %v / %v, expected [11, 12]", r1, err)
							return
						}
						if between == "clear" {
							// Clear forgets the children: the host makes its Invoker again, before the next run
							if pooled {
								inv.Release()
							}
							vm.Clear()
							vm.SetBytecode(bc)
							inv = ugo.NewInvoker(vm, stored)
							if pooled {
								inv.Acquire()
							}
						}
						r2, err := vm.Run(g2)
						// in the script: 101; through the kept Invoker: 102; the run's own function: 103
						if err != nil || r2.String() != "[101, 102, 103]" || g2["counter"] != ugo.Int(103) || g1["counter"] != ugo.Int(12) {
							what = fmt.Sprintf("second run with other globals: result %v / %v (in the script, through the kept Invoker, own function; expected [101, 102, 103]), its counter %v (103), the first run's counter %v (12)", r2, err, g2["counter"], g1["counter"])
						}
						if pooled && inv != nil {
							inv.Release()
						}
					}()
					r := N{"pooled": pooled, "between": between, "warm": warm, "ok": what == "", "src": src}
					if what != "" {
						r["what"] = what
					}
					out.put(r)
				}
			}
		}
		// a pooled child VM that was running a function when its root VM was aborted goes back to the pool when the
		// Invoker is released: the next pooled Invoker (on another root VM) that gets it calls its function like any
		// other - the call from Go still equals the call in the script.  One P, so that the pool hands the VM back.
		prevProcs := runtime.GOMAXPROCS(1)
		for round := 0; round < 3; round++ {
			n++
			what := ""
			func() {
				bc1, err := ugo.Compile([]byte("global (cb, mark)\nf := func() { mark(); for {} }\ncb(f)\nreturn 1"), ugo.CompilerOptions{})
				if err != nil {
					what = err.Error()
					return
				}
				reached := make(chan struct{}, 1)
				mark := &ugo.Function{Name: "mark", Value: func(a ...ugo.Object) (ugo.Object, error) { reached <- struct{}{}; return ugo.Undefined, nil }}
				vm1 := ugo.NewVM(bc1)
				done := make(chan error, 1)
				go func() {
					_, err := vm1.Run(ugo.Map{"cb": hostCall(true), "mark": mark})
					done <- err
				}()
				select {
				case <-reached:
				case <-time.After(5 * time.Second):
					what = "harness: the first script never reached its callback"
					return
				}
				vm1.Abort()
				select {
				case <-done:
				case <-time.After(5 * time.Second):
					for i := 0; i < 2000; i++ {
						vm1.Abort()
						time.Sleep(time.Millisecond)
					}
					what = "harness: the aborted run did not end (C09's business)"
					return
				}
				bc2, err := ugo.Compile([]byte("global cb\ng := func(v) { return v + 1 }\nreturn [g(1), cb(g, 1), cb(g, 2)]"), ugo.CompilerOptions{})
				if err != nil {
					what = err.Error()
					return
				}
				for k := 0; k < 4 && what == ""; k++ {
					ret, err := ugo.NewVM(bc2).Run(ugo.Map{"cb": hostCall(true)})
					if err != nil || ret.String() != "[2, 2, 3]" {
						what = fmt.Sprintf("after another VM was aborted inside a pooled callback: [g(1), cb(g, 1), cb(g, 2)] = %v / %v, expected [2, 2, 3] (the call from Go equals the call in the script)", ret, err)
					}
				}
			}()
			if strings.HasPrefix(what, "harness:") {
				out.put(N{"harness": what})
				continue
			}
			r := N{"pooled": true, "between": "abort-of-another-vm", "warm": round, "ok": what == "", "src": "global cb\ng := func(v) { return v + 1 }\nreturn [g(1), cb(g, 1), cb(g, 2)]"}
			if what != "" {
				r["what"] = what
			}
			out.put(r)
		}
		runtime.GOMAXPROCS(prevProcs)
		out.put(N{"done": true, "n": n})
		return nil
	}
}
