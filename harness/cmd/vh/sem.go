package main

// Rendering of UgoSem programs (tla/UgoSem.tla AST as JSON) to uGO source and
// canonical projection of uGO values, shared by the C01/C02/C10/C12/C13 replays.

import (
	"bytes"
	"context"
	"encoding/json"
	"fmt"
	"io"
	"os"
	"reflect"
	"runtime/debug"
	"sort"
	"strings"
	"time"

	"github.com/ozanh/ugo"
	"github.com/ozanh/ugo/encoder"
)

type N = map[string]any

func seqOf(v any) []any {
	if v == nil {
		return nil
	}
	if s, ok := v.([]any); ok {
		return s
	}
	return nil
}

func semVal(v N) string {
	switch v["t"] {
	case "int":
		return fmt.Sprint(int(v["v"].(float64)))
	case "str":
		return fmt.Sprintf("%q", v["v"].(string))
	case "bool":
		return fmt.Sprint(v["v"].(bool))
	case "undef":
		return "undefined"
	case "raw":
		return v["src"].(string)
	}
	panic(fmt.Sprint("semVal ", v))
}

func semExpr(e N) string {
	switch e["k"] {
	case "lit":
		return semVal(e["v"].(N))
	case "id":
		return e["n"].(string)
	case "bin":
		return "(" + semExpr(e["l"].(N)) + " " + e["op"].(string) + " " + semExpr(e["r"].(N)) + ")"
	case "un":
		return "(" + e["op"].(string) + semExpr(e["e"].(N)) + ")"
	case "cond":
		return "(" + semExpr(e["c"].(N)) + " ? " + semExpr(e["a"].(N)) + " : " + semExpr(e["b"].(N)) + ")"
	case "arr":
		var p []string
		for _, x := range seqOf(e["es"]) {
			p = append(p, semExpr(x.(N)))
		}
		return "[" + strings.Join(p, ", ") + "]"
	case "map":
		var p []string
		ks, es := seqOf(e["ks"]), seqOf(e["es"])
		for i := range ks {
			p = append(p, ks[i].(string)+": "+semExpr(es[i].(N)))
		}
		return "{" + strings.Join(p, ", ") + "}"
	case "idx":
		return semExpr(e["e"].(N)) + "[" + semExpr(e["i"].(N)) + "]"
	case "slice":
		lo, hi := "", ""
		if v := int(e["lo"].(float64)); v >= 0 {
			lo = fmt.Sprint(v)
		}
		if v := int(e["hi"].(float64)); v >= 0 {
			hi = fmt.Sprint(v)
		}
		return semExpr(e["e"].(N)) + "[" + lo + ":" + hi + "]"
	case "sel":
		return semExpr(e["e"].(N)) + "." + e["n"].(string)
	case "import":
		return fmt.Sprintf("import(%q)", e["n"].(string))
	case "call":
		var p []string
		as := seqOf(e["as"])
		for i, x := range as {
			s := semExpr(x.(N))
			if e["sp"].(bool) && i == len(as)-1 {
				s = "..." + s
			}
			p = append(p, s)
		}
		f := semExpr(e["f"].(N))
		if e["f"].(N)["k"] == "fn" {
			f = "(" + f + ")"
		}
		return f + "(" + strings.Join(p, ", ") + ")"
	case "fn":
		var p []string
		ps := seqOf(e["ps"])
		for i, x := range ps {
			s := x.(string)
			if e["va"].(bool) && i == len(ps)-1 {
				s = "..." + s
			}
			p = append(p, s)
		}
		return "func(" + strings.Join(p, ", ") + ") {\n" + semBlock(seqOf(e["b"]), "  ") + "}"
	}
	panic("semExpr " + fmt.Sprint(e["k"]))
}

func semSimple(b []any) string {
	var p []string
	for _, s := range b {
		p = append(p, strings.TrimSpace(semStmt(s.(N), "")))
	}
	return strings.Join(p, "; ")
}

func semBlock(b []any, ind string) string {
	var sb strings.Builder
	for _, s := range b {
		sb.WriteString(semStmt(s.(N), ind))
	}
	return sb.String()
}

func names(v any) string {
	var p []string
	for _, x := range seqOf(v) {
		p = append(p, x.(string))
	}
	return strings.Join(p, ", ")
}

func semStmt(s N, ind string) string {
	switch s["k"] {
	case "def":
		return ind + s["n"].(string) + " := " + semExpr(s["e"].(N)) + "\n"
	case "var":
		return ind + "var " + s["n"].(string) + "\n"
	case "vari":
		return ind + "var " + s["n"].(string) + " = " + semExpr(s["e"].(N)) + "\n"
	case "const":
		return ind + "const " + s["n"].(string) + " = " + semExpr(s["e"].(N)) + "\n"
	case "constg":
		ns := seqOf(s["ns"])
		r := ind + "const (\n"
		for i, n := range ns {
			if i == 0 {
				r += ind + "  " + n.(string) + " = " + semExpr(s["e"].(N)) + "\n"
			} else {
				r += ind + "  " + n.(string) + "\n"
			}
		}
		return r + ind + ")\n"
	case "param":
		return ind + "param (" + names(s["ns"]) + ")\n"
	case "paramv":
		ns := seqOf(s["ns"])
		var ps []string
		for i, n := range ns {
			if i == len(ns)-1 {
				ps = append(ps, "..."+n.(string))
			} else {
				ps = append(ps, n.(string))
			}
		}
		return ind + "param (" + strings.Join(ps, ", ") + ")\n"
	case "global":
		return ind + "global (" + names(s["ns"]) + ")\n"
	case "asg":
		return ind + s["n"].(string) + " = " + semExpr(s["e"].(N)) + "\n"
	case "cmp":
		return ind + s["n"].(string) + " " + s["op"].(string) + "= " + semExpr(s["e"].(N)) + "\n"
	case "cmpi":
		return ind + semExpr(s["t"].(N)) + "[" + semExpr(s["i"].(N)) + "] " + s["op"].(string) + "= " + semExpr(s["e"].(N)) + "\n"
	case "asgi":
		return ind + semExpr(s["t"].(N)) + "[" + semExpr(s["i"].(N)) + "] = " + semExpr(s["e"].(N)) + "\n"
	case "asgs":
		return ind + semExpr(s["t"].(N)) + "." + s["n"].(string) + " = " + semExpr(s["e"].(N)) + "\n"
	case "destr":
		op := " = "
		if s["d"].(bool) {
			op = " := "
		}
		return ind + names(s["ns"]) + op + semExpr(s["e"].(N)) + "\n"
	case "expr":
		return ind + semExpr(s["e"].(N)) + "\n"
	case "log":
		// inline (no call frame, so nothing executes between two episodes): the value is bound
		// first because uGO evaluates the old value of log before the arguments of append
		return ind + "if true {\n" + ind + "  lv := " + semExpr(s["e"].(N)) + "\n" + ind + "  log = append(log, lv)\n" + ind + "}\n"
	case "ret":
		return ind + "return " + semExpr(s["e"].(N)) + "\n"
	case "ret0":
		return ind + "return\n"
	case "thr":
		return ind + "throw " + semExpr(s["e"].(N)) + "\n"
	case "brk":
		return ind + "break\n"
	case "cnt":
		return ind + "continue\n"
	case "if":
		r := ind + "if " + semExpr(s["c"].(N)) + " {\n" + semBlock(seqOf(s["t"]), ind+"  ") + ind + "}"
		if len(seqOf(s["f"])) > 0 {
			r += " else {\n" + semBlock(seqOf(s["f"]), ind+"  ") + ind + "}"
		}
		return r + "\n"
	case "for":
		return ind + "for " + semSimple(seqOf(s["i"])) + "; " + semExpr(s["c"].(N)) + "; " + semSimple(seqOf(s["p"])) + " {\n" + semBlock(seqOf(s["b"]), ind+"  ") + ind + "}\n"
	case "forin":
		return ind + "for " + s["kn"].(string) + ", " + s["vn"].(string) + " in " + semExpr(s["e"].(N)) + " {\n" + semBlock(seqOf(s["b"]), ind+"  ") + ind + "}\n"
	case "try":
		r := ind + "try {\n" + semBlock(seqOf(s["b"]), ind+"  ") + ind + "}"
		if s["hc"].(bool) {
			r += " catch " + s["cn"].(string) + " {\n" + semBlock(seqOf(s["c"]), ind+"  ") + ind + "}"
		}
		if s["hf"].(bool) {
			r += " finally {\n" + semBlock(seqOf(s["f"]), ind+"  ") + ind + "}"
		}
		return r + "\n"
	}
	panic("semStmt " + fmt.Sprint(s["k"]))
}

const semLogDecl = "global log\nL := func(v) { log = append(log, v) }\n"

// semSource renders a main script: leading param/global declarations stay
// first, then the logging preamble, then the rest.
func semSource(body []any, withLog bool) string {
	i := 0
	var sb strings.Builder
	for i < len(body) {
		k := body[i].(N)["k"]
		if k != "param" && k != "paramv" && k != "global" {
			break
		}
		sb.WriteString(semStmt(body[i].(N), ""))
		i++
	}
	if withLog {
		sb.WriteString(semLogDecl)
	}
	sb.WriteString(semBlock(body[i:], ""))
	return sb.String()
}

// semObj is the canonical projection of a uGO value (matches San of UgoSem.tla).
func semObj(o ugo.Object) any {
	switch v := o.(type) {
	case ugo.Int:
		return N{"t": "int", "v": float64(v)}
	case ugo.String:
		return N{"t": "str", "v": string(v)}
	case ugo.Bool:
		return N{"t": "bool", "v": bool(v)}
	case *ugo.UndefinedType:
		return N{"t": "undef"}
	case ugo.Array:
		a := []any{}
		for _, x := range v {
			a = append(a, semObj(x))
		}
		return N{"t": "arr", "v": a}
	case ugo.Map:
		m := N{}
		for k, x := range v {
			m[k] = semObj(x)
		}
		return N{"t": "map", "v": m}
	case *ugo.CompiledFunction:
		return N{"t": "fn"}
	case *ugo.BuiltinFunction:
		return N{"t": "bi", "n": v.Name}
	case *ugo.Error:
		return N{"t": "err", "name": v.Name, "msg": v.Message}
	case *ugo.RuntimeError:
		if v.Err != nil {
			return N{"t": "err", "name": v.Err.Name, "msg": v.Err.Message}
		}
	case *ugo.ObjectPtr:
		if v.Value != nil {
			return semObj(*v.Value)
		}
	}
	if o == nil {
		return N{"t": "nil"}
	}
	return N{"t": "other", "v": o.TypeName() + ":" + o.String()}
}

// canon normalises a JSON tree: empty containers of TLC ([] for an empty
// function) and of Go ({}), error messages of runtime errors.
func canon(v any) any {
	switch x := v.(type) {
	case map[string]any:
		if x["t"] == "err" {
			msg, name := x["msg"], x["name"]
			if name == "" {
				name = "error" // a thrown non-error value becomes an error without a name
			}
			if name != "error" {
				msg = ""
			}
			return N{"t": "err", "name": name, "msg": msg}
		}
		if x["t"] == "map" {
			inner, ok := x["v"].(map[string]any)
			m := N{}
			if ok {
				for k, e := range inner {
					m[k] = canon(e)
				}
			}
			return N{"t": "map", "v": m}
		}
		m := N{}
		for k, e := range x {
			m[k] = canon(e)
		}
		return m
	case []any:
		a := make([]any, len(x))
		for i, e := range x {
			a[i] = canon(e)
		}
		return a
	}
	return v
}

func canonS(v any) string {
	b, _ := json.Marshal(canon(v))
	return string(b)
}

type semProg struct {
	Body     []any `json:"body"`
	Mods     any   `json:"mods"`
	Args     []any `json:"args"`
	Globals  any   `json:"globals"`
	Disabled []any `json:"disabled"`
}
type semExp struct {
	O       []any `json:"o"`
	Log     []any `json:"log"`
	Globals any   `json:"globals"`
}
type semCase struct {
	MayRefuse  bool    `json:"mayrefuse"`
	RefKnown   *bool   `json:"refknown"`
	Refused    bool    `json:"refused"`
	RefOpt     bool    `json:"refopt"`
	ModRefused bool    `json:"modrefused"`
	Fam        string  `json:"fam"`
	ID         any     `json:"id"`
	Prog       semProg `json:"prog"`
	Exp        semExp  `json:"exp"`
}

// hostCall is the Go function behind the globals cbcall (pooled Invoker) and cbcall2 (not pooled):
// it calls its first argument with the remaining ones.
func hostCall(pooled bool) *ugo.Function {
	return &ugo.Function{Name: "cbcall", ValueEx: func(c ugo.Call) (ugo.Object, error) {
		if c.Len() < 1 {
			return nil, ugo.ErrWrongNumArguments.NewError("want>=1 got=0")
		}
		inv := ugo.NewInvoker(c.VM(), c.Get(0))
		if pooled {
			inv.Acquire()
			defer inv.Release()
		}
		var args []ugo.Object
		for i := 1; i < c.Len(); i++ {
			args = append(args, c.Get(i))
		}
		return hostInvoke(inv, args)
	}}
}

// hostInvoke calls the function the way a host with an argument buffer of its own does: the buffer has
// spare capacity, is looked at after the call (the callee must not have written into it) and is then
// re-used for something else (whatever the callee kept must not live in it).
func hostInvoke(inv *ugo.Invoker, args []ugo.Object) (ugo.Object, error) {
	buf := append(make([]ugo.Object, 0, len(args)+4), args...)
	ret, err := inv.Invoke(buf...)
	for i := range args {
		if !reflect.DeepEqual(buf[i], args[i]) {
			return nil, fmt.Errorf("the callee changed argument %d in the caller's argument buffer: %v", i, buf[i])
		}
	}
	buf = buf[:cap(buf)]
	for i := range buf {
		buf[i] = ugo.String("host-buffer-reused")
	}
	return ret, err
}

// hostSeq is the Go function behind cbseq / cbseq2: one Invoker, acquired once (or not pooled),
// invokes the function once per argument list; a returned error is collected as a value.
func hostSeq(pooled bool) *ugo.Function {
	return &ugo.Function{Name: "cbseq", ValueEx: func(c ugo.Call) (ugo.Object, error) {
		if c.Len() != 2 {
			return nil, ugo.ErrWrongNumArguments.NewError("want=2")
		}
		lists, ok := c.Get(1).(ugo.Array)
		if !ok {
			return nil, ugo.ErrWrongNumArguments.NewError("want array")
		}
		inv := ugo.NewInvoker(c.VM(), c.Get(0))
		if pooled {
			inv.Acquire()
			defer inv.Release()
		}
		out := ugo.Array{}
		for _, l := range lists {
			args, _ := l.(ugo.Array)
			ret, err := hostInvoke(inv, args)
			if err != nil {
				if o, ok := err.(ugo.Object); ok {
					out = append(out, o)
				} else {
					out = append(out, &ugo.Error{Name: "goerr", Message: err.Error()})
				}
				continue
			}
			out = append(out, ret)
		}
		return out, nil
	}}
}

// hostSeqCycle is the Go function behind cbseq3: ONE Invoker used over and over, each invocation
// between its own Acquire and Release; between two invocations another Invoker (for a function
// of the host's own) takes a child VM from the pool and gives it back.
func hostSeqCycle() *ugo.Function {
	return &ugo.Function{Name: "cbseq3", ValueEx: func(c ugo.Call) (ugo.Object, error) {
		if c.Len() != 2 {
			return nil, ugo.ErrWrongNumArguments.NewError("want=2")
		}
		lists, ok := c.Get(1).(ugo.Array)
		if !ok {
			return nil, ugo.ErrWrongNumArguments.NewError("want array")
		}
		inv := ugo.NewInvoker(c.VM(), c.Get(0))
		other := ugo.NewInvoker(c.VM(), &ugo.Function{Name: "hostfn", Value: func(a ...ugo.Object) (ugo.Object, error) { return ugo.Int(-1), nil }})
		out := ugo.Array{}
		for _, l := range lists {
			args, _ := l.(ugo.Array)
			inv.Acquire()
			ret, err := hostInvoke(inv, args)
			inv.Release()
			other.Acquire()
			other.Invoke()
			other.Release()
			if err != nil {
				if o, ok := err.(ugo.Object); ok {
					out = append(out, o)
				} else {
					out = append(out, &ugo.Error{Name: "goerr", Message: err.Error()})
				}
				continue
			}
			out = append(out, ret)
		}
		return out, nil
	}}
}

func semValueObj(v N) ugo.Object {
	switch v["t"] {
	case "bi":
		switch v["n"] {
		case "cbseq3":
			return hostSeqCycle()
		case "cbseq":
			return hostSeq(true)
		case "cbseq2":
			return hostSeq(false)
		}
		return hostCall(v["n"] == "cbcall")
	case "int":
		return ugo.Int(int64(v["v"].(float64)))
	case "str":
		return ugo.String(v["v"].(string))
	case "bool":
		return ugo.Bool(v["v"].(bool))
	case "arr":
		a := ugo.Array{}
		for _, x := range seqOf(v["v"]) {
			a = append(a, semValueObj(x.(N)))
		}
		return a
	}
	return ugo.Undefined
}

// semExpected is the canonical expected observation.
func semExpected(e semExp) string {
	g := N{}
	if m, ok := e.Globals.(map[string]any); ok {
		for k, v := range m {
			if !strings.HasPrefix(k, "cb") {
				g[k] = v
			}
		}
	}
	return canonS([]any{e.O, e.Log, g})
}

type semCfg struct {
	Name      string
	Opts      ugo.CompilerOptions
	RoundTrip bool // encode + decode the bytecode before running
	Again     int  // additional encode + decode rounds
	Twice     bool // run twice on the same VM, observe the second run
	VM2       bool // run on one VM, then observe a run of a second VM on the same Bytecode
	Sess      bool // the program is a fragment of an Eval session whose earlier fragments referred to every disabled builtin (and were refused)
}

func semConfigs(names []string) []semCfg {
	var out []semCfg
	for _, full := range names {
		n := full
		rt, twice, vm2, sess := false, false, false, false
		again := 0
		for strings.Contains(n, "+") {
			i := strings.LastIndex(n, "+")
			switch n[i+1:] {
			case "rt":
				if rt {
					again++
				}
				rt = true
			case "twice":
				twice = true
			case "vm2":
				vm2 = true
			case "sess":
				sess = true
			}
			n = n[:i]
		}
		k := len(out)
		switch {
		case n == "default":
			out = append(out, semCfg{Name: n, Opts: ugo.CompilerOptions{}})
		case n == "noopt":
			out = append(out, semCfg{Name: n, Opts: ugo.CompilerOptions{NoOptimize: true}})
		case strings.HasPrefix(n, "limit"):
			lim := 0
			fmt.Sscan(n[5:], &lim)
			out = append(out, semCfg{Name: n, Opts: ugo.CompilerOptions{OptimizerLimit: lim}})
		}
		for ; k < len(out); k++ {
			out[k].Name, out[k].RoundTrip, out[k].Twice, out[k].Again = full, rt, twice, again
			out[k].VM2, out[k].Sess = vm2, sess
		}
	}
	return out
}

func moduleMapOf(p semProg) *ugo.ModuleMap {
	mm := ugo.NewModuleMap()
	if m, ok := p.Mods.(map[string]any); ok {
		ks := make([]string, 0, len(m))
		for k := range m {
			ks = append(ks, k)
		}
		sort.Strings(ks)
		for _, k := range ks {
			if k == "bm" {
				// the builtin (Go) module: its body is "return <map literal>", the literal's value becomes the module's attributes
				bc, err := ugo.Compile([]byte(semBlock(seqOf(m[k]), "")), ugo.CompilerOptions{})
				if err != nil {
					panic(fmt.Sprint("builtin module literal: ", err))
				}
				v, err := ugo.NewVM(bc).Run(nil)
				attrs, ok := v.(ugo.Map)
				if err != nil || !ok {
					panic(fmt.Sprint("builtin module literal: ", v, err))
				}
				mm.AddBuiltinModule(k, attrs)
				continue
			}
			// the reference semantics logs "load:<name>" when a module body starts executing
			src := fmt.Sprintf("global log\nlog = append(log, %q)\nL := func(v) { log = append(log, v) }\n", "load:"+k) + semBlock(seqOf(m[k]), "")
			mm.AddSourceModule(k, []byte(src))
		}
	}
	return mm
}

// watchedRun runs the VM; every program of the families terminates within milliseconds, so a run that is
// still going after 10 s is stopped (Abort, repeatedly) and reported as an error of its own kind.
var semTimeouts int // runs stopped by the watchdog so far (only the replaying goroutine counts)

func watchedRun(vm *ugo.VM, g ugo.Object, args []ugo.Object) (ugo.Object, error) {
	type res struct {
		o ugo.Object
		e error
		p any
	}
	ch := make(chan res, 1)
	go func() {
		defer func() {
			if p := recover(); p != nil {
				ch <- res{p: p}
			}
		}()
		o, e := vm.Run(g, args...)
		ch <- res{o: o, e: e}
	}()
	select {
	case r := <-ch:
		if r.p != nil {
			panic(r.p)
		}
		return r.o, r.e
	case <-time.After(10 * time.Second):
		for i := 0; i < 3000; i++ {
			vm.Abort()
			select {
			case <-ch:
				i = 3000
			case <-time.After(time.Millisecond):
			}
		}
		semTimeouts++
		return nil, fmt.Errorf("TIMEOUT: the run did not end within 10 s")
	}
}

// semRun compiles and runs a program under opts; returns the canonical observation.
func semRun(p semProg, cf semCfg, src string) (obs string, compileErr error, panicked any) {
	opts := cf.Opts
	defer func() {
		if r := recover(); r != nil {
			panicked = r
		}
	}()
	opts.ModuleMap = moduleMapOf(p)
	if len(p.Disabled) > 0 {
		st := ugo.NewSymbolTable()
		var ds []string
		for _, d := range p.Disabled {
			ds = append(ds, d.(string))
		}
		st.DisableBuiltin(ds...)
		opts.SymbolTable = st
	}
	if cf.Sess {
		return semSession(p, opts, src)
	}
	bc, err := ugo.Compile([]byte(src), opts)
	if err != nil {
		return "", err, nil
	}
	if ref := builtinRefs(bc, p.Disabled); ref != "" {
		return "BUILTINREF: " + ref, nil, nil
	}
	for rt := 0; cf.RoundTrip && rt < 1+cf.Again; rt++ {
		var buf bytes.Buffer
		if err := encoder.EncodeBytecodeTo(bc, &buf); err != nil {
			return "ENCODE: " + err.Error(), nil, nil
		}
		bc2, err := encoder.DecodeBytecodeFrom(&buf, opts.ModuleMap)
		if err != nil {
			return "DECODE: " + err.Error(), nil, nil
		}
		bc = bc2
	}
	mkGlobals := func() ugo.Map {
		g := ugo.Map{"log": ugo.Array{}}
		if m, ok := p.Globals.(map[string]any); ok {
			for k, v := range m {
				g[k] = semValueObj(v.(N))
			}
		}
		return g
	}
	g := mkGlobals()
	var args []ugo.Object
	for _, a := range p.Args {
		args = append(args, semValueObj(a.(N)))
	}
	// printed output is part of the observation (only when there is any)
	var printed bytes.Buffer
	ugo.PrintWriter = &printed
	defer func() { ugo.PrintWriter = io.Discard }()
	vm := ugo.NewVM(bc)
	ret, rerr := watchedRun(vm, g, args)
	if cf.Twice || cf.VM2 {
		printed.Reset()
	}
	if cf.Twice {
		// a cleared VM starts the second run with an empty module cache
		vm.Clear()
		g = mkGlobals()
		ret, rerr = watchedRun(vm, g, args)
	}
	if cf.VM2 {
		// another VM on the same Bytecode: nothing the first run did is visible to it
		g = mkGlobals()
		ret, rerr = watchedRun(ugo.NewVM(bc), g, args)
	}
	var o []any
	if rerr != nil {
		if re, ok := rerr.(*ugo.RuntimeError); ok {
			o = []any{"thr", semObj(re)}
		} else {
			o = []any{"goerr", rerr.Error()}
		}
	} else {
		o = []any{"ret", semObj(ret)}
	}
	logv := semObj(g["log"]).(N)["v"]
	gl := N{}
	for k, v := range g {
		if k != "log" && !strings.HasPrefix(k, "cb") {
			gl[k] = semObj(v)
		}
	}
	if printed.Len() > 0 {
		return canonS([]any{o, logv, gl, N{"printed": printed.String()}}), nil, nil
	}
	return canonS([]any{o, logv, gl}), nil, nil
}

// semSession runs the program as a fragment of an Eval session.  Earlier fragments referred to every
// disabled builtin - in the main scope and inside a function - and must have been refused, twice each:
// a refusal leaves nothing behind that lets a later reference through.
func semSession(p semProg, opts ugo.CompilerOptions, src string) (obs string, compileErr error, panicked any) {
	g := ugo.Map{"log": ugo.Array{}}
	if m, ok := p.Globals.(map[string]any); ok {
		for k, v := range m {
			g[k] = semValueObj(v.(N))
		}
	}
	var args []ugo.Object
	for _, a := range p.Args {
		args = append(args, semValueObj(a.(N)))
	}
	if opts.SymbolTable == nil {
		opts.SymbolTable = ugo.NewSymbolTable()
	}
	// the table itself never hands out a disabled builtin, however often it is asked, and also when the name
	// was resolved (and cached) before it got disabled
	for _, d := range p.Disabled {
		for i := 0; i < 3; i++ {
			if sym, ok := opts.SymbolTable.Resolve(d.(string)); ok {
				return fmt.Sprintf("SESSION: SymbolTable.Resolve(%q) = %v although the name is disabled (call %d)", d, sym, i+1), nil, nil
			}
		}
	}
	{
		early := ugo.NewSymbolTable()
		for _, d := range p.Disabled {
			early.Resolve(d.(string))
		}
		for _, d := range p.Disabled {
			early.DisableBuiltin(d.(string))
		}
		for _, d := range p.Disabled {
			if sym, ok := early.Resolve(d.(string)); ok {
				return fmt.Sprintf("SESSION: SymbolTable.Resolve(%q) = %v although the name was disabled after an earlier use", d, sym), nil, nil
			}
		}
	}
	// a session in which the script itself declared variables with those names before the host disabled them: a source
	// module imported afterwards has a scope of its own, the names mean the builtins there and must be refused
	if len(p.Disabled) > 0 {
		var decl, uses []string
		for _, d := range p.Disabled {
			decl = append(decl, d.(string)+" := 0")
			uses = append(uses, d.(string))
		}
		mm := ugo.NewModuleMap()
		mm.AddSourceModule("mz", []byte("return ["+strings.Join(uses, ", ")+"]"))
		st := ugo.NewSymbolTable()
		ev2 := ugo.NewEval(ugo.CompilerOptions{NoOptimize: opts.NoOptimize, OptimizerLimit: opts.OptimizerLimit, SymbolTable: st, ModuleMap: mm}, ugo.Map{})
		if _, _, err := ev2.Run(context.Background(), []byte(strings.Join(decl, "\n"))); err != nil {
			return "SESSION: declaring variables named like builtins failed: " + err.Error(), nil, nil
		}
		for _, d := range p.Disabled {
			st.DisableBuiltin(d.(string))
		}
		if _, bc, _ := ev2.Run(context.Background(), []byte("return import(\"mz\")")); bc != nil {
			return fmt.Sprintf("SESSION: a module using %v compiled although the names were disabled (the session's script had declared variables of those names before)", uses), nil, nil
		}
	}
	ev := ugo.NewEval(opts, g, args...)
	for round := 0; round < 2; round++ {
		for _, d := range p.Disabled {
			for _, frag := range []string{"zq := " + d.(string), "zf := func() { return " + d.(string) + " }"} {
				if _, bc, _ := ev.Run(context.Background(), []byte(frag)); bc != nil {
					return fmt.Sprintf("SESSION: fragment %q compiled although %s is disabled (round %d)", frag, d, round+1), nil, nil
				}
			}
		}
	}
	ret, bc, rerr := ev.Run(context.Background(), []byte(src))
	if bc == nil {
		return "", rerr, nil
	}
	if ref := builtinRefs(bc, p.Disabled); ref != "" {
		return "BUILTINREF: " + ref, nil, nil
	}
	var o []any
	if rerr != nil {
		if re, ok := rerr.(*ugo.RuntimeError); ok {
			o = []any{"thr", semObj(re)}
		} else {
			o = []any{"goerr", rerr.Error()}
		}
	} else {
		o = []any{"ret", semObj(ret)}
	}
	logv := semObj(g["log"]).(N)["v"]
	gl := N{}
	for k, v := range g {
		if k != "log" && !strings.HasPrefix(k, "cb") {
			gl[k] = semObj(v)
		}
	}
	return canonS([]any{o, logv, gl}), nil, nil
}

// builtinRefs scans every compiled function for a GETBUILTIN of a disabled name.
func builtinRefs(bc *ugo.Bytecode, disabled []any) string {
	if len(disabled) == 0 {
		return ""
	}
	dis := map[ugo.BuiltinType]string{}
	for _, d := range disabled {
		if bt, ok := ugo.BuiltinsMap[d.(string)]; ok {
			dis[bt] = d.(string)
		}
	}
	found := ""
	scan := func(cf *ugo.CompiledFunction) {
		ugo.IterateInstructions(cf.Instructions, func(pos int, op ugo.Opcode, operands []int, _ int) bool {
			if op == ugo.OpGetBuiltin {
				if n, ok := dis[ugo.BuiltinType(operands[0])]; ok {
					found = n
				}
			}
			return true
		})
	}
	scan(bc.Main)
	for _, c := range bc.Constants {
		if cf, ok := c.(*ugo.CompiledFunction); ok {
			scan(cf)
		}
	}
	return found
}

func init() {
	// sem <cases.ndjson> <results.ndjson> cfg1,cfg2,...
	subs["sem"] = func(args []string) error {
		cfgs := semConfigs(strings.Split(args[2], ","))
		out, err := newOut(args[1])
		if err != nil {
			return err
		}
		defer out.close()
		// optional: record the per-instruction trace of the first configuration's runs (code -> spec)
		var tr *tracer
		every, off, ncase := 1, 0, 0
		if spec := os.Getenv("VERIF_TRACE_OUT"); spec != "" {
			parts := strings.Split(spec, ",")
			if tr, err = newTracer(parts[0]); err != nil {
				return err
			}
			tr.install()
			tr.pause(true)
			defer tr.close(parts[1])
			fmt.Sscan(os.Getenv("VERIF_TRACE_EVERY"), &every)
			if every < 1 {
				every = 1
			}
			off = int(seed()) % every
		}
		marker := os.Getenv("VH_SEM_MARKER")
		if marker != "" {
			// a compiler that recurses without end is stopped at 256 MB of stack instead of Go's 1 GB
			debug.SetMaxStack(256 << 20)
		}
		return readCases(args[0], func(raw []byte) error {
			var c semCase
			if err := json.Unmarshal(raw, &c); err != nil {
				return err
			}
			if marker != "" {
				// what is being compiled and run, for the case that the process does not survive it
				mb, _ := json.Marshal(N{"id": c.ID, "src": semSource(c.Prog.Body, true)})
				os.WriteFile(marker, mb, 0o644)
			}
			if semTimeouts >= 8 {
				// eight programs that never end are verdict enough: the rest of the family is not run
				return nil
			}
			src := semSource(c.Prog.Body, true)
			want := semExpected(c.Exp)
			r := N{"fam": c.Fam, "id": c.ID, "src": src, "want": want, "mayrefuse": c.MayRefuse, "refknown": c.RefKnown == nil || *c.RefKnown, "refused": c.Refused, "refopt": c.RefOpt, "modrefused": c.ModRefused}
			got := N{}
			ok := true
			ncase++
			for ci, cf := range cfgs {
				if tr != nil {
					tr.pause(!(ci == 0 && ncase%every == off))
				}
				obs, cerr, pan := semRun(c.Prog, cf, src)
				if tr != nil {
					tr.pause(true)
				}
				switch {
				case pan != nil:
					got[cf.Name] = fmt.Sprint("PANIC: ", pan)
					ok = false
				case cerr != nil:
					got[cf.Name] = "COMPILE: " + strings.ReplaceAll(cerr.Error(), "\n", " ")
					ok = false
				default:
					got[cf.Name] = obs
					if obs != want {
						ok = false
					}
				}
			}
			r["got"] = got
			r["ok"] = ok
			if tr != nil {
				r["tag"] = tr.runs
			}
			out.put(r)
			return nil
		})
	}
}
