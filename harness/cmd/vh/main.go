// Command vh is the conformance harness binding the TLA+ specifications of
// /verif/tla to the implementation in $VERIF_REPO (default /repo).
package main

import (
	"bufio"
	"encoding/json"
	"fmt"
	"os"
	"sort"
	"strconv"
)

var subs = map[string]func(args []string) error{}

func main() {
	if len(os.Args) < 2 {
		var names []string
		for k := range subs {
			names = append(names, k)
		}
		sort.Strings(names)
		fmt.Fprintln(os.Stderr, "usage: vh <sub> args...; subs:", names)
		os.Exit(2)
	}
	f, ok := subs[os.Args[1]]
	if !ok {
		fmt.Fprintln(os.Stderr, "unknown sub", os.Args[1])
		os.Exit(2)
	}
	if err := f(os.Args[2:]); err != nil {
		fmt.Fprintln(os.Stderr, "vh:", err)
		os.Exit(3)
	}
}

func seed() int64 {
	n, err := strconv.ParseInt(os.Getenv("VERIF_SEED"), 10, 64)
	if err != nil {
		return 1
	}
	return n
}

// readCases reads ndjson where each line is either a JSON object or (as TLC's
// CSVWrite of ToJson writes it) a JSON string containing a JSON object.
func readCases(path string, fn func(raw []byte) error) error {
	f, err := os.Open(path)
	if err != nil {
		return err
	}
	defer f.Close()
	sc := bufio.NewScanner(f)
	sc.Buffer(make([]byte, 1<<20), 1<<28)
	seen := map[string]bool{}
	for sc.Scan() {
		b := sc.Bytes()
		if len(b) == 0 {
			continue
		}
		if b[0] == '"' {
			var inner string
			if err := json.Unmarshal(b, &inner); err != nil {
				return fmt.Errorf("bad line: %v", err)
			}
			b = []byte(inner)
		}
		k := string(b)
		if seen[k] {
			continue
		}
		seen[k] = true
		if err := fn([]byte(k)); err != nil {
			return err
		}
	}
	return sc.Err()
}

type outWriter struct {
	f *os.File
	w *bufio.Writer
	e *json.Encoder
}

func newOut(path string) (*outWriter, error) {
	f, err := os.Create(path)
	if err != nil {
		return nil, err
	}
	w := bufio.NewWriterSize(f, 1<<20)
	e := json.NewEncoder(w)
	e.SetEscapeHTML(false)
	return &outWriter{f, w, e}, nil
}
func (o *outWriter) put(v any) { o.e.Encode(v) }
func (o *outWriter) close()    { o.w.Flush(); o.f.Close() }

func norm(v any) string {
	b, _ := json.Marshal(v)
	return string(b)
}
