package main

import (
	"bufio"
	"encoding/json"
	"io"
	"os"
	"sync"

	"github.com/ozanh/ugo"
)

// tracer records the per-instruction projection of every VM run performed
// while it is installed (hooks of build tag verif) as ndjson, and the static
// try regions of every function seen into a side file (a TLC constant).
type tracer struct {
	mu    sync.Mutex
	f     *os.File
	w     *bufio.Writer
	enc   *json.Encoder
	fnids map[*byte]int
	regs  [][]ugo.VerifRegion
	vmids map[*ugo.VM]int
	n     int
	runs  int
	off   bool
	mark  int64
	caseN int
	over  bool
}

func newTracer(path string) (*tracer, error) {
	f, err := os.Create(path)
	if err != nil {
		return nil, err
	}
	t := &tracer{f: f, w: bufio.NewWriterSize(f, 1<<20), fnids: map[*byte]int{}, vmids: map[*ugo.VM]int{}}
	t.enc = json.NewEncoder(t.w)
	return t, nil
}

func (t *tracer) vmid(vm *ugo.VM) int {
	id, ok := t.vmids[vm]
	if !ok {
		id = len(t.vmids) + 1
		t.vmids[vm] = id
	}
	return id
}

type stepEv struct {
	Ev string `json:"ev"`
	VM int    `json:"vm"`
	Fn int    `json:"fn"`
	Fi int    `json:"fi"`
	Ip int    `json:"ip"`
	Op string `json:"op"`
	A  int    `json:"a"`
	Nx int    `json:"nx"`
	Sp int    `json:"sp"`
	Nh int    `json:"nh"`
}
type syncEv struct {
	Ev   string `json:"ev"`
	VM   int    `json:"vm"`
	Tag  int    `json:"tag"`
	Kind string `json:"kind"`
}

func (t *tracer) install() {
	ugo.VerifStepFn = func(vm *ugo.VM, fn *ugo.CompiledFunction, fi, ip int, op ugo.Opcode, sp, nh int) {
		t.mu.Lock()
		defer t.mu.Unlock()
		if t.off || len(fn.Instructions) == 0 {
			return
		}
		key := &fn.Instructions[0]
		id, ok := t.fnids[key]
		if !ok {
			id = len(t.fnids) + 1
			t.fnids[key] = id
			t.regs = append(t.regs, ugo.VerifRegions(fn.Instructions))
		}
		a := 0
		if w := ugo.OpcodeOperands[op]; len(w) > 0 && ip+w[0] < len(fn.Instructions) {
			for k := 0; k < w[0]; k++ {
				a = a<<8 | int(fn.Instructions[ip+1+k])
			}
		}
		nx := ip + 1
		for _, k := range ugo.OpcodeOperands[op] {
			nx += k
		}
		t.n++
		if t.caseN++; t.caseN > 100000 {
			t.over, t.off = true, true
			return
		}
		t.enc.Encode(stepEv{"step", t.vmid(vm), id, fi, ip, ugo.OpcodeNames[op], a, nx, sp, nh})
	}
	ugo.VerifSyncFn = func(vm *ugo.VM, point string) {
		if point != "run.enter" && point != "run.exit" && point != "throw" {
			return
		}
		t.mu.Lock()
		defer t.mu.Unlock()
		if t.off {
			return
		}
		if point == "run.enter" {
			t.runs++
		}
		t.n++
		kind := ""
		if point == "run.exit" {
			kind = vm.VerifExitKind()
		}
		t.enc.Encode(syncEv{point, t.vmid(vm), t.runs, kind})
	}
}

// pause switches recording off and on around the runs of one program.  A program that runs away (the
// families' programs take a few thousand steps) is not recorded: past 100000 events the recording stops
// and the events of that program are taken out of the file again - such a run is reported by the replay
// itself (watchdog), and an endless trace would only keep the trace validation busy.
func (t *tracer) pause(b bool) {
	t.mu.Lock()
	defer t.mu.Unlock()
	if !b {
		t.w.Flush()
		t.mark, _ = t.f.Seek(0, io.SeekCurrent)
		t.caseN, t.over = 0, false
	} else if t.over {
		t.w.Flush()
		t.f.Truncate(t.mark)
		t.f.Seek(t.mark, io.SeekStart)
		t.over = false
	}
	t.off = b
}

func (t *tracer) uninstall() {
	ugo.VerifStepFn = nil
	ugo.VerifSyncFn = nil
}

func (t *tracer) close(regsPath string) error {
	t.uninstall()
	t.w.Flush()
	t.f.Close()
	regs := t.regs
	if regs == nil {
		regs = [][]ugo.VerifRegion{}
	}
	b, _ := json.Marshal(regs)
	return os.WriteFile(regsPath, b, 0o644)
}
