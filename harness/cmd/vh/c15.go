package main

// C15: records the real operator table T[a, op, b] over a boundary domain
// (code -> spec); tla/UgoOps.tla loads it and checks every law and every cell
// the documentation determines.

import (
	"fmt"
	"math"
	"os"

	"github.com/ozanh/ugo"
	"github.com/ozanh/ugo/token"
)

type opVal struct {
	Name string
	Typ  string
	Num  *int // small integer value if the token denotes one
	Obj  ugo.Object
}

func ipt(i int) *int { return &i }

func opsDomain(thorough bool) []opVal {
	d := []opVal{
		{"undef", "undefined", nil, ugo.Undefined},
		{"true", "bool", ipt(1), ugo.True}, {"false", "bool", ipt(0), ugo.False},
		{"i0", "int", ipt(0), ugo.Int(0)}, {"i1", "int", ipt(1), ugo.Int(1)}, {"i2", "int", ipt(2), ugo.Int(2)},
		{"i3", "int", ipt(3), ugo.Int(3)}, {"im1", "int", ipt(-1), ugo.Int(-1)}, {"i97", "int", ipt(97), ugo.Int(97)},
		{"imax", "int", nil, ugo.Int(math.MaxInt64)}, {"imin", "int", nil, ugo.Int(math.MinInt64)},
		{"u0", "uint", ipt(0), ugo.Uint(0)}, {"u1", "uint", ipt(1), ugo.Uint(1)}, {"u2", "uint", ipt(2), ugo.Uint(2)},
		{"u97", "uint", ipt(97), ugo.Uint(97)}, {"umax", "uint", nil, ugo.Uint(math.MaxUint64)},
		{"f0", "float", ipt(0), ugo.Float(0)}, {"fm0", "float", nil, ugo.Float(math.Copysign(0, -1))},
		{"f1", "float", ipt(1), ugo.Float(1)}, {"f2", "float", ipt(2), ugo.Float(2)}, {"f97", "float", ipt(97), ugo.Float(97)},
		{"f1_5", "float", nil, ugo.Float(1.5)}, {"fnan", "float", nil, ugo.Float(math.NaN())},
		{"finf", "float", nil, ugo.Float(math.Inf(1))}, {"fminf", "float", nil, ugo.Float(math.Inf(-1))},
		{"c0", "char", ipt(0), ugo.Char(0)}, {"c1", "char", ipt(1), ugo.Char(1)}, {"c2", "char", ipt(2), ugo.Char(2)},
		{"ca", "char", ipt(97), ugo.Char('a')}, {"cm1", "char", ipt(-1), ugo.Char(-1)}, {"cmax", "char", nil, ugo.Char(math.MaxInt32)},
		{"s_empty", "string", nil, ugo.String("")}, {"s_a", "string", nil, ugo.String("a")}, {"s_b", "string", nil, ugo.String("b")},
		{"b_empty", "bytes", nil, ugo.Bytes{}}, {"b_a", "bytes", nil, ugo.Bytes("a")},
		{"a_empty", "array", nil, ugo.Array{}}, {"a_i1", "array", nil, ugo.Array{ugo.Int(1)}},
		{"a_f1", "array", nil, ugo.Array{ugo.Float(1)}}, {"a_u1", "array", nil, ugo.Array{ugo.Uint(1)}},
		{"m_empty", "map", nil, ugo.Map{}}, {"m_i1", "map", nil, ugo.Map{"k": ugo.Int(1)}}, {"m_f1", "map", nil, ugo.Map{"k": ugo.Float(1)}},
		{"err", "error", nil, &ugo.Error{Name: "E", Message: "m"}},
	}
	if thorough {
		d = append(d,
			opVal{"i5", "int", ipt(5), ugo.Int(5)}, opVal{"im2", "int", ipt(-2), ugo.Int(-2)}, opVal{"i64", "int", ipt(64), ugo.Int(64)},
			opVal{"i63", "int", ipt(63), ugo.Int(63)}, opVal{"im97", "int", ipt(-97), ugo.Int(-97)},
			opVal{"u3", "uint", ipt(3), ugo.Uint(3)}, opVal{"u5", "uint", ipt(5), ugo.Uint(5)}, opVal{"u64", "uint", ipt(64), ugo.Uint(64)},
			opVal{"uhalf", "uint", nil, ugo.Uint(1 << 63)},
			opVal{"f3", "float", ipt(3), ugo.Float(3)}, opVal{"fm1", "float", ipt(-1), ugo.Float(-1)}, opVal{"f0_5", "float", nil, ugo.Float(0.5)},
			opVal{"fbig", "float", nil, ugo.Float(1e300)}, opVal{"fsmall", "float", nil, ugo.Float(5e-324)},
			opVal{"c3", "char", ipt(3), ugo.Char(3)}, opVal{"cb", "char", ipt(98), ugo.Char('b')}, opVal{"cmin", "char", nil, ugo.Char(math.MinInt32)},
			opVal{"s_ab", "string", nil, ugo.String("ab")}, opVal{"s_1", "string", nil, ugo.String("1")}, opVal{"s_bad", "string", nil, ugo.String("\xff")},
			opVal{"b_b", "bytes", nil, ugo.Bytes("b")}, opVal{"b_ab", "bytes", nil, ugo.Bytes("ab")},
			opVal{"a_nest", "array", nil, ugo.Array{ugo.Array{ugo.Int(1)}}}, opVal{"a_nestf", "array", nil, ugo.Array{ugo.Array{ugo.Float(1)}}},
			opVal{"a_i1i2", "array", nil, ugo.Array{ugo.Int(1), ugo.Int(2)}}, opVal{"a_true", "array", nil, ugo.Array{ugo.True}},
			opVal{"a_undef", "array", nil, ugo.Array{ugo.Undefined}}, opVal{"a_c1", "array", nil, ugo.Array{ugo.Char(1)}},
			opVal{"m_u1", "map", nil, ugo.Map{"k": ugo.Uint(1)}}, opVal{"m_nest", "map", nil, ugo.Map{"k": ugo.Array{ugo.Int(1)}}},
			opVal{"m_nestf", "map", nil, ugo.Map{"k": ugo.Array{ugo.Float(1)}}}, opVal{"m_k2", "map", nil, ugo.Map{"j": ugo.Int(1)}},
			opVal{"m_true", "map", nil, ugo.Map{"k": ugo.True}},
			opVal{"err2", "error", nil, &ugo.Error{Name: "E", Message: "m"}},
			opVal{"fn", "function", nil, &ugo.Function{Name: "f"}},
		)
	}
	return d
}

func init() {
	// c15 <table.ndjson>: vals, then binary cells (op-major, then a, then b), then unary cells
	subs["c15"] = func(args []string) error {
		thorough := os.Getenv("VERIF_TIER") == "thorough"
		dom := opsDomain(thorough)
		ops := []token.Token{token.Add, token.Sub, token.Mul, token.Quo, token.Rem, token.And, token.Or, token.Xor, token.AndNot, token.Shl, token.Shr,
			token.Less, token.LessEq, token.Greater, token.GreaterEq, token.Equal, token.NotEqual}
		out, err := newOut(args[0])
		if err != nil {
			return err
		}
		defer out.close()
		for _, v := range dom {
			zero, neg := false, false
			switch x := v.Obj.(type) {
			case ugo.Int:
				zero, neg = x == 0, x < 0
			case ugo.Uint:
				zero = x == 0
			case ugo.Float:
				zero, neg = x == 0, x < 0
			case ugo.Char:
				zero, neg = x == 0, x < 0
			case ugo.Bool:
				zero = !bool(x)
			}
			rec := map[string]any{"ev": "val", "name": v.Name, "typ": v.Typ, "hasnum": v.Num != nil, "num": 0, "zero": zero, "neg": neg}
			if v.Num != nil {
				rec["num"] = *v.Num
			}
			out.put(rec)
		}
		fill := func(rec map[string]any, ret ugo.Object, err error) {
			if err != nil {
				rec["kind"] = "error"
				if re, ok := err.(*ugo.RuntimeError); ok && re.Err != nil {
					rec["rname"] = re.Err.Name
				} else if e, ok := err.(*ugo.Error); ok {
					rec["rname"] = e.Name
				} else {
					rec["rname"] = "?" + err.Error()
				}
				return
			}
			rec["kind"] = "value"
			rec["rt"] = ret.TypeName()
			switch v := ret.(type) {
			case ugo.Bool:
				rec["rbool"] = bool(v)
				if v {
					rec["rnum"], rec["hasrnum"] = 1, true
				} else {
					rec["rnum"], rec["hasrnum"] = 0, true
				}
			case ugo.Int:
				if v > -100000 && v < 100000 {
					rec["rnum"], rec["hasrnum"] = int(v), true
				}
			case ugo.Uint:
				if v < 100000 {
					rec["rnum"], rec["hasrnum"] = int(v), true
				}
			case ugo.Char:
				if v > -100000 && v < 100000 {
					rec["rnum"], rec["hasrnum"] = int(v), true
				}
			case ugo.Float:
				if float64(v) == math.Trunc(float64(v)) && math.Abs(float64(v)) < 100000 && !(v == 0 && math.Signbit(float64(v))) {
					rec["rnum"], rec["hasrnum"] = int(v), true
				}
			}
		}
		blank := func(op, a, b string) map[string]any {
			return map[string]any{"ev": "op", "op": op, "a": a, "b": b, "kind": "", "rt": "", "rname": "", "rnum": 0, "hasrnum": false, "rbool": false, "direct": ""}
		}
		for _, op := range ops {
			src := fmt.Sprintf("param (a, b)\nreturn a %s b", op.String())
			bc, err := ugo.Compile([]byte(src), ugo.CompilerOptions{NoOptimize: true})
			if err != nil {
				return err
			}
			for _, a := range dom {
				for _, b := range dom {
					rec := blank(op.String(), a.Name, b.Name)
					func() {
						defer func() {
							if r := recover(); r != nil {
								rec["kind"] = "panic"
								rec["rname"] = fmt.Sprint(r)
							}
						}()
						ret, err := ugo.NewVM(bc).Run(nil, a.Obj, b.Obj)
						fill(rec, ret, err)
					}()
					rec["script"] = fmt.Sprint(rec["kind"], "/", rec["rt"], "/", rec["rname"], "/", rec["hasrnum"], "/", rec["rnum"], "/", rec["rbool"])
					if rec["kind"] == "panic" {
						rec["script"] = "panic"
					}
					// the Go API (Object.BinaryOp / Equal) must agree with the script-level result
					func() {
						defer func() {
							if r := recover(); r != nil {
								rec["direct"] = "panic"
							}
						}()
						d := blank("", "", "")
						switch op {
						case token.Equal:
							fill(d, ugo.Bool(a.Obj.Equal(b.Obj)), nil)
						case token.NotEqual:
							fill(d, ugo.Bool(!a.Obj.Equal(b.Obj)), nil)
						default:
							ret, err := a.Obj.BinaryOp(op, b.Obj)
							fill(d, ret, err)
						}
						rec["direct"] = fmt.Sprint(d["kind"], "/", d["rt"], "/", d["rname"], "/", d["hasrnum"], "/", d["rnum"], "/", d["rbool"])
					}()
					out.put(rec)
				}
			}
		}
		for _, op := range []string{"+", "-", "^", "!"} {
			src := fmt.Sprintf("param a\nreturn %sa", op)
			bc, err := ugo.Compile([]byte(src), ugo.CompilerOptions{NoOptimize: true})
			if err != nil {
				return err
			}
			for _, a := range dom {
				rec := blank("u"+op, a.Name, "")
				rec["ev"] = "unary"
				func() {
					defer func() {
						if r := recover(); r != nil {
							rec["kind"] = "panic"
							rec["rname"] = fmt.Sprint(r)
						}
					}()
					ret, err := ugo.NewVM(bc).Run(nil, a.Obj)
					fill(rec, ret, err)
				}()
				out.put(rec)
			}
		}
		return nil
	}
}
