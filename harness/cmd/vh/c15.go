package main

// C15: records the real operator table T[a, op, b] over a boundary domain
// (code -> spec); tla/UgoOps.tla loads it and checks every law and every cell
// the documentation determines.

import (
	"fmt"
	"math"
	"os"
	"runtime"
	"strings"
	"sync"

	"github.com/ozanh/ugo"
	"github.com/ozanh/ugo/token"
)

type opVal struct {
	Name string
	Typ  string
	Num  *int // small integer value if the token denotes one
	Obj  ugo.Object
}

func ipt(i int) *int { return &i }

var opsErr = &ugo.Error{Name: "E", Message: "m"}

func opsDomain(thorough bool) []opVal {
	d := []opVal{
		{"undef", "undefined", nil, ugo.Undefined},
		{"true", "bool", ipt(1), ugo.True}, {"false", "bool", ipt(0), ugo.False},
		{"i0", "int", ipt(0), ugo.Int(0)}, {"i1", "int", ipt(1), ugo.Int(1)}, {"i2", "int", ipt(2), ugo.Int(2)},
		{"i3", "int", ipt(3), ugo.Int(3)}, {"im1", "int", ipt(-1), ugo.Int(-1)}, {"i97", "int", ipt(97), ugo.Int(97)},
		{"imax", "int", nil, ugo.Int(math.MaxInt64)}, {"imin", "int", nil, ugo.Int(math.MinInt64)},
		{"u0", "uint", ipt(0), ugo.Uint(0)}, {"u1", "uint", ipt(1), ugo.Uint(1)}, {"u2", "uint", ipt(2), ugo.Uint(2)},
		{"u97", "uint", ipt(97), ugo.Uint(97)}, {"umax", "uint", nil, ugo.Uint(math.MaxUint64)},
		{"f0", "float", ipt(0), ugo.Float(0)}, {"fm0", "float", nil, ugo.Float(math.Copysign(0, -1))},
		{"f1", "float", ipt(1), ugo.Float(1)}, {"f2", "float", ipt(2), ugo.Float(2)}, {"f97", "float", ipt(97), ugo.Float(97)},
		{"f1_5", "float", nil, ugo.Float(1.5)}, {"fnan", "float", nil, ugo.Float(math.NaN())},
		{"finf", "float", nil, ugo.Float(math.Inf(1))}, {"fminf", "float", nil, ugo.Float(math.Inf(-1))},
		{"c0", "char", ipt(0), ugo.Char(0)}, {"c1", "char", ipt(1), ugo.Char(1)}, {"c2", "char", ipt(2), ugo.Char(2)},
		{"ca", "char", ipt(97), ugo.Char('a')}, {"cm1", "char", ipt(-1), ugo.Char(-1)}, {"cmax", "char", nil, ugo.Char(math.MaxInt32)},
		{"s_empty", "string", nil, ugo.String("")}, {"s_a", "string", nil, ugo.String("a")}, {"s_b", "string", nil, ugo.String("b")},
		{"b_empty", "bytes", nil, ugo.Bytes{}}, {"b_a", "bytes", nil, ugo.Bytes("a")},
		{"a_empty", "array", nil, ugo.Array{}}, {"a_i1", "array", nil, ugo.Array{ugo.Int(1)}},
		{"a_f1", "array", nil, ugo.Array{ugo.Float(1)}}, {"a_u1", "array", nil, ugo.Array{ugo.Uint(1)}},
		{"m_empty", "map", nil, ugo.Map{}}, {"m_i1", "map", nil, ugo.Map{"k": ugo.Int(1)}}, {"m_f1", "map", nil, ugo.Map{"k": ugo.Float(1)}},
		{"err", "error", nil, opsErr},
		// a caught error is a runtime error wrapping the thrown one
		{"rerr", "error", nil, &ugo.RuntimeError{Err: opsErr}}, {"rerrb", "error", nil, &ugo.RuntimeError{Err: opsErr}},
		{"zde", "error", nil, ugo.ErrZeroDivision}, {"rzde", "error", nil, &ugo.RuntimeError{Err: ugo.ErrZeroDivision}},
		// integers float64 cannot hold exactly, next to the floats they round to
		{"i2p53p1", "int", nil, ugo.Int(9007199254740993)}, {"u2p53p1", "uint", nil, ugo.Uint(9007199254740993)}, {"f2p53", "float", nil, ugo.Float(9007199254740992)},
		{"f2p63", "float", nil, ugo.Float(9223372036854775808)},
		// containers holding undefined, maps with other keys of the same size
		{"m_ku", "map", nil, ugo.Map{"k": ugo.Undefined}}, {"m_j1", "map", nil, ugo.Map{"j": ugo.Int(1)}}, {"m_ju", "map", nil, ugo.Map{"j": ugo.Undefined}},
		{"a_u", "array", nil, ugo.Array{ugo.Undefined}}, {"a_i1u", "array", nil, ugo.Array{ugo.Int(1), ugo.Undefined}},
	}
	if thorough {
		d = append(d,
			opVal{"i5", "int", ipt(5), ugo.Int(5)}, opVal{"im2", "int", ipt(-2), ugo.Int(-2)}, opVal{"i64", "int", ipt(64), ugo.Int(64)},
			opVal{"i63", "int", ipt(63), ugo.Int(63)}, opVal{"im97", "int", ipt(-97), ugo.Int(-97)},
			opVal{"u3", "uint", ipt(3), ugo.Uint(3)}, opVal{"u5", "uint", ipt(5), ugo.Uint(5)}, opVal{"u64", "uint", ipt(64), ugo.Uint(64)},
			opVal{"uhalf", "uint", nil, ugo.Uint(1 << 63)},
			opVal{"f3", "float", ipt(3), ugo.Float(3)}, opVal{"fm1", "float", ipt(-1), ugo.Float(-1)}, opVal{"f0_5", "float", nil, ugo.Float(0.5)},
			opVal{"fbig", "float", nil, ugo.Float(1e300)}, opVal{"fsmall", "float", nil, ugo.Float(5e-324)},
			opVal{"c3", "char", ipt(3), ugo.Char(3)}, opVal{"cb", "char", ipt(98), ugo.Char('b')}, opVal{"cmin", "char", nil, ugo.Char(math.MinInt32)},
			opVal{"s_ab", "string", nil, ugo.String("ab")}, opVal{"s_1", "string", nil, ugo.String("1")}, opVal{"s_bad", "string", nil, ugo.String("\xff")},
			opVal{"b_b", "bytes", nil, ugo.Bytes("b")}, opVal{"b_ab", "bytes", nil, ugo.Bytes("ab")},
			opVal{"a_nest", "array", nil, ugo.Array{ugo.Array{ugo.Int(1)}}}, opVal{"a_nestf", "array", nil, ugo.Array{ugo.Array{ugo.Float(1)}}},
			opVal{"a_i1i2", "array", nil, ugo.Array{ugo.Int(1), ugo.Int(2)}}, opVal{"a_true", "array", nil, ugo.Array{ugo.True}},
			opVal{"a_undef", "array", nil, ugo.Array{ugo.Undefined, ugo.Undefined}}, opVal{"a_c1", "array", nil, ugo.Array{ugo.Char(1)}},
			opVal{"m_u1", "map", nil, ugo.Map{"k": ugo.Uint(1)}}, opVal{"m_nest", "map", nil, ugo.Map{"k": ugo.Array{ugo.Int(1)}}},
			opVal{"m_nestf", "map", nil, ugo.Map{"k": ugo.Array{ugo.Float(1)}}}, opVal{"m_k2", "map", nil, ugo.Map{"j": ugo.Int(1), "k": ugo.Undefined}},
			opVal{"m_true", "map", nil, ugo.Map{"k": ugo.True}},
			opVal{"err2", "error", nil, &ugo.Error{Name: "E", Message: "m"}},
			opVal{"fn", "function", nil, &ugo.Function{Name: "f"}},
		)
	}
	return d
}

// opsLits: how each domain value is written in a script.  Values without a
// source form (NaN, infinities, -0.0, the minimal int, errors, functions)
// take part only as parameters.
var opsLits = map[string]string{
	"undef": "undefined", "true": "true", "false": "false",
	"i0": "0", "i1": "1", "i2": "2", "i3": "3", "im1": "-1", "i97": "97", "imax": "9223372036854775807",
	"i5": "5", "im2": "-2", "i64": "64", "i63": "63", "im97": "-97",
	"u0": "0u", "u1": "1u", "u2": "2u", "u97": "97u", "umax": "18446744073709551615u", "u3": "3u", "u5": "5u", "u64": "64u",
	"uhalf": "9223372036854775808u",
	"f0":    "0.0", "f1": "1.0", "f2": "2.0", "f97": "97.0", "f1_5": "1.5", "f3": "3.0", "fm1": "-1.0", "f0_5": "0.5",
	"fbig": "1e300", "fsmall": "5e-324",
	"c0": "'\\x00'", "c1": "'\\x01'", "c2": "'\\x02'", "c3": "'\\x03'", "ca": "'a'", "cb": "'b'",
	"cm1": "char(-1)", "cmax": "char(2147483647)", "cmin": "char(-2147483648)",
	"s_empty": `""`, "s_a": `"a"`, "s_b": `"b"`, "s_ab": `"ab"`, "s_1": `"1"`, "s_bad": `"\xff"`,
	"b_empty": "bytes()", "b_a": `bytes("a")`, "b_b": `bytes("b")`, "b_ab": `bytes("ab")`,
	"a_empty": "[]", "a_i1": "[1]", "a_f1": "[1.0]", "a_u1": "[1u]", "a_nest": "[[1]]", "a_nestf": "[[1.0]]",
	"a_i1i2": "[1, 2]", "a_true": "[true]", "a_undef": "[undefined, undefined]", "a_c1": "['\\x01']",
	"m_empty": "{}", "m_i1": "{k: 1}", "m_f1": "{k: 1.0}", "m_u1": "{k: 1u}", "m_nest": "{k: [1]}", "m_nestf": "{k: [1.0]}",
	"m_k2": "{j: 1, k: undefined}", "i2p53p1": "9007199254740993", "u2p53p1": "9007199254740993u", "f2p53": "9007199254740992.0", "f2p63": "9223372036854775808.0", "m_ku": "{k: undefined}", "m_j1": "{j: 1}", "m_ju": "{j: undefined}", "a_u": "[undefined]", "a_i1u": "[1, undefined]", "m_true": "{k: true}",
}

// projection of a result, the same string the table carries as "script"
func opsProj(rec map[string]any) string {
	if rec["kind"] == "panic" {
		return "panic"
	}
	return fmt.Sprint(rec["kind"], "/", rec["rt"], "/", rec["rname"], "/", rec["hasrnum"], "/", rec["rnum"], "/", rec["rbool"])
}

func init() {
	// c15 <table.ndjson>: vals, then binary cells (op-major, then a, then b), then unary cells
	subs["c15"] = func(args []string) error {
		thorough := os.Getenv("VERIF_TIER") == "thorough"
		dom := opsDomain(thorough)
		ops := []token.Token{token.Add, token.Sub, token.Mul, token.Quo, token.Rem, token.And, token.Or, token.Xor, token.AndNot, token.Shl, token.Shr,
			token.Less, token.LessEq, token.Greater, token.GreaterEq, token.Equal, token.NotEqual}
		out, err := newOut(args[0])
		if err != nil {
			return err
		}
		defer out.close()
		for _, v := range dom {
			zero, neg := false, false
			switch x := v.Obj.(type) {
			case ugo.Int:
				zero, neg = x == 0, x < 0
			case ugo.Uint:
				zero = x == 0
			case ugo.Float:
				zero, neg = x == 0, x < 0
			case ugo.Char:
				zero, neg = x == 0, x < 0
			case ugo.Bool:
				zero = !bool(x)
			}
			rec := map[string]any{"ev": "val", "name": v.Name, "typ": v.Typ, "hasnum": v.Num != nil, "num": 0, "zero": zero, "neg": neg}
			if v.Num != nil {
				rec["num"] = *v.Num
			}
			out.put(rec)
		}
		fill := func(rec map[string]any, ret ugo.Object, err error) {
			if err != nil {
				rec["kind"] = "error"
				if re, ok := err.(*ugo.RuntimeError); ok && re.Err != nil {
					rec["rname"] = re.Err.Name
				} else if e, ok := err.(*ugo.Error); ok {
					rec["rname"] = e.Name
				} else {
					rec["rname"] = "?" + err.Error()
				}
				return
			}
			rec["kind"] = "value"
			rec["rt"] = ret.TypeName()
			switch v := ret.(type) {
			case ugo.Bool:
				rec["rbool"] = bool(v)
				if v {
					rec["rnum"], rec["hasrnum"] = 1, true
				} else {
					rec["rnum"], rec["hasrnum"] = 0, true
				}
			case ugo.Int:
				if v > -100000 && v < 100000 {
					rec["rnum"], rec["hasrnum"] = int(v), true
				}
			case ugo.Uint:
				if v < 100000 {
					rec["rnum"], rec["hasrnum"] = int(v), true
				}
			case ugo.Char:
				if v > -100000 && v < 100000 {
					rec["rnum"], rec["hasrnum"] = int(v), true
				}
			case ugo.Float:
				if float64(v) == math.Trunc(float64(v)) && math.Abs(float64(v)) < 100000 && !(v == 0 && math.Signbit(float64(v))) {
					rec["rnum"], rec["hasrnum"] = int(v), true
				}
			}
		}
		blank := func(op, a, b string) map[string]any {
			return map[string]any{"ev": "op", "op": op, "a": a, "b": b, "kind": "", "rt": "", "rname": "", "rnum": 0, "hasrnum": false, "rbool": false, "direct": "", "lita": "", "litb": "", "litab": "", "constb": "", "asg": ""}
		}
		for i := range dom {
			if opsLits[dom[i].Name] == "" {
				continue
			}
			// the source form must denote exactly the domain value, or the harness is wrong
			bc, err := ugo.Compile([]byte("return "+opsLits[dom[i].Name]), ugo.CompilerOptions{NoOptimize: true})
			if err != nil {
				return fmt.Errorf("literal %s: %v", dom[i].Name, err)
			}
			ret, err := ugo.NewVM(bc).Run(nil)
			if err != nil || ret.TypeName() != dom[i].Obj.TypeName() || !ret.Equal(dom[i].Obj) {
				return fmt.Errorf("literal %s = %s denotes %v (%v), not the domain value", dom[i].Name, opsLits[dom[i].Name], ret, err)
			}
		}
		// one run of a presentation: compile with the default options (optimizer on) and project the outcome
		present := func(src string, args ...ugo.Object) string {
			rec := blank("", "", "")
			func() {
				defer func() {
					if r := recover(); r != nil {
						rec["kind"] = "panic"
					}
				}()
				bc, err := ugo.Compile([]byte(src), ugo.CompilerOptions{})
				if err != nil {
					// a folded expression may be rejected at compile time with the error the VM would raise
					rec["kind"] = "error"
					rec["rname"] = "?" + err.Error()
					for _, n := range []string{"TypeError", "ZeroDivisionError", "InvalidOperatorError"} {
						if strings.Contains(err.Error(), n) {
							rec["rname"] = n
						}
					}
					return
				}
				ret, err := ugo.NewVM(bc).Run(nil, args...)
				fill(rec, ret, err)
			}()
			return opsProj(rec)
		}
		type row struct{ recs []map[string]any }
		rows := make([]row, len(ops)*len(dom))
		var wg sync.WaitGroup
		sem := make(chan struct{}, runtime.NumCPU())
		var firstErr error
		var mu sync.Mutex
		for oi, op := range ops {
			src := fmt.Sprintf("param (a, b)\nreturn a %s b", op.String())
			bc, err := ugo.Compile([]byte(src), ugo.CompilerOptions{NoOptimize: true})
			if err != nil {
				return err
			}
			// compound assignment, for the operators that have one
			var bcAsg *ugo.Bytecode
			if oi < 11 {
				bcAsg, err = ugo.Compile([]byte(fmt.Sprintf("param (a, b)\na %s= b\nreturn a", op.String())), ugo.CompilerOptions{})
				if err != nil {
					return err
				}
			}
			for ai, a := range dom {
				wg.Add(1)
				sem <- struct{}{}
				go func(oi, ai int, op token.Token, a opVal) {
					defer func() { <-sem; wg.Done() }()
					defer func() {
						if r := recover(); r != nil {
							mu.Lock()
							firstErr = fmt.Errorf("row %s %s: %v", op, a.Name, r)
							mu.Unlock()
						}
					}()
					out := make([]map[string]any, 0, len(dom))
					for _, b := range dom {
						rec := blank(op.String(), a.Name, b.Name)
						func() {
							defer func() {
								if r := recover(); r != nil {
									rec["kind"] = "panic"
									rec["rname"] = fmt.Sprint(r)
								}
							}()
							ret, err := ugo.NewVM(bc).Run(nil, a.Obj, b.Obj)
							fill(rec, ret, err)
						}()
						rec["script"] = opsProj(rec)
						// the Go API (Object.BinaryOp / Equal) must agree with the script-level result
						func() {
							defer func() {
								if r := recover(); r != nil {
									rec["direct"] = "panic"
								}
							}()
							d := blank("", "", "")
							switch op {
							case token.Equal:
								fill(d, ugo.Bool(a.Obj.Equal(b.Obj)), nil)
							case token.NotEqual:
								fill(d, ugo.Bool(!a.Obj.Equal(b.Obj)), nil)
							default:
								ret, err := a.Obj.BinaryOp(op, b.Obj)
								fill(d, ret, err)
							}
							rec["direct"] = opsProj(d)
						}()
						// other ways of writing the same operation, compiled with the optimizer on:
						// an operand as a literal, both as literals, an operand as a constant, compound assignment
						if opsLits[b.Name] != "" {
							rec["litb"] = present(fmt.Sprintf("param a\nreturn a %s %s", op, opsLits[b.Name]), a.Obj)
							rec["constb"] = present(fmt.Sprintf("param a\nconst k = %s\nreturn a %s k", opsLits[b.Name], op), a.Obj)
						}
						if opsLits[a.Name] != "" {
							rec["lita"] = present(fmt.Sprintf("param b\nreturn %s %s b", opsLits[a.Name], op), b.Obj)
						}
						if opsLits[a.Name] != "" && opsLits[b.Name] != "" {
							rec["litab"] = present(fmt.Sprintf("return %s %s %s", opsLits[a.Name], op, opsLits[b.Name]))
						}
						if bcAsg != nil {
							d := blank("", "", "")
							func() {
								defer func() {
									if r := recover(); r != nil {
										d["kind"] = "panic"
									}
								}()
								ret, err := ugo.NewVM(bcAsg).Run(nil, a.Obj, b.Obj)
								fill(d, ret, err)
							}()
							rec["asg"] = opsProj(d)
						}
						out = append(out, rec)
					}
					rows[oi*len(dom)+ai].recs = out
				}(oi, ai, op, a)
			}
		}
		wg.Wait()
		if firstErr != nil {
			return firstErr
		}
		for _, r := range rows {
			for _, rec := range r.recs {
				out.put(rec)
			}
		}
		for _, op := range []string{"+", "-", "^", "!"} {
			src := fmt.Sprintf("param a\nreturn %sa", op)
			bc, err := ugo.Compile([]byte(src), ugo.CompilerOptions{NoOptimize: true})
			if err != nil {
				return err
			}
			for _, a := range dom {
				rec := blank("u"+op, a.Name, "")
				rec["ev"] = "unary"
				func() {
					defer func() {
						if r := recover(); r != nil {
							rec["kind"] = "panic"
							rec["rname"] = fmt.Sprint(r)
						}
					}()
					ret, err := ugo.NewVM(bc).Run(nil, a.Obj)
					fill(rec, ret, err)
				}()
				out.put(rec)
			}
		}
		return nil
	}
}
