package main

import (
	"encoding/json"
	"fmt"
	"os"
	"strings"

	"github.com/ozanh/ugo"
)

// ---- F_try: rendering of UgoTry programs (see tla/UgoTry.tla)

type tStmt struct {
	K  string  `json:"k"`
	B  []tStmt `json:"b"`
	Hc bool    `json:"hc"`
	C  []tStmt `json:"c"`
	Hf bool    `json:"hf"`
	F  []tStmt `json:"f"`
}
type tRes struct {
	O []any `json:"o"`
	L []any `json:"l"`
}
type tCase struct {
	Prog []tStmt `json:"prog"`
	Exp  tRes    `json:"exp"`
	Out  []any   `json:"out"`
	Log  []any   `json:"log"`
}

func pstr(p []int) string {
	s := make([]string, len(p))
	for i, v := range p {
		s[i] = fmt.Sprint(v)
	}
	return "[" + strings.Join(s, ",") + "]"
}
func app(p []int, i ...int) []int { return append(append([]int{}, p...), i...) }

func tBlock(sb *strings.Builder, b []tStmt, p []int, ind string) {
	fmt.Fprintf(sb, "%slog = append(log, [\"B\", %s])\n", ind, pstr(p))
	for i, s := range b {
		tStmtR(sb, s, app(p, i+1), ind)
	}
}
func pid(p []int) string { return strings.Trim(strings.ReplaceAll(pstr(p), ",", "_"), "[]") }

func tStmtR(sb *strings.Builder, s tStmt, p []int, ind string) {
	switch s.K {
	case "ret":
		fmt.Fprintf(sb, "%sreturn [\"ret\", %s]\n", ind, pstr(p))
	case "brk":
		fmt.Fprintf(sb, "%sbreak\n", ind)
	case "cnt":
		fmt.Fprintf(sb, "%scontinue\n", ind)
	case "thr":
		fmt.Fprintf(sb, "%sthrow error(\"%s\")\n", ind, pstr(p))
	case "rte":
		fmt.Fprintf(sb, "%szero / zero\n", ind)
	case "loop":
		v := "i" + pid(p)
		fmt.Fprintf(sb, "%sfor %s := 0; %s < 1; %s = post(%s, %s) {\n", ind, v, v, v, v, pstr(p))
		tBlock(sb, s.B, app(p, 1), ind+"  ")
		fmt.Fprintf(sb, "%s}\n", ind)
	case "call":
		v := "r" + pid(p)
		fmt.Fprintf(sb, "%s%s := func() {\n", ind, v)
		tBlock(sb, s.B, app(p, 1), ind+"  ")
		fmt.Fprintf(sb, "%s}()\n%slog = append(log, [\"retv\", %s == undefined ? [] : %s[1]])\n", ind, ind, v, v)
	case "try":
		fmt.Fprintf(sb, "%stry {\n", ind)
		tBlock(sb, s.B, app(p, 1), ind+"  ")
		if s.Hc {
			e := "e" + pid(p)
			fmt.Fprintf(sb, "%s} catch %s {\n%s  log = append(log, [\"caught\", isError(%s, ZeroDivisionError) ? \"[0]\" : %s.Message])\n", ind, e, ind, e, e)
			tBlock(sb, s.C, app(p, 2), ind+"  ")
		}
		if s.Hf {
			fmt.Fprintf(sb, "%s} finally {\n", ind)
			tBlock(sb, s.F, app(p, 3), ind+"  ")
		}
		fmt.Fprintf(sb, "%s}\n", ind)
	}
}

func renderTry(prog []tStmt) string {
	var sb strings.Builder
	sb.WriteString("global log\nzero := 0\npost := func(i, p) { log = append(log, [\"post\", p]); return i+1 }\n")
	tBlock(&sb, prog, nil, "")
	return sb.String()
}

func objToAny(o ugo.Object) any {
	switch v := o.(type) {
	case ugo.Array:
		out := make([]any, len(v))
		for i := range v {
			out[i] = objToAny(v[i])
		}
		return out
	case ugo.String:
		s := string(v)
		if strings.HasPrefix(s, "[") { // path encoded as string in an error message
			var p []any
			json.Unmarshal([]byte(s), &p)
			if p == nil {
				p = []any{}
			}
			return p
		}
		return s
	case ugo.Int:
		return float64(v)
	case *ugo.UndefinedType:
		return []any{}
	}
	if o == nil {
		return nil
	}
	return o.String()
}

// runTry executes src and returns the observable outcome and log in the
// shape used by UgoTry ([o, l]).
func runTry(src string, opts ugo.CompilerOptions) (out any, log any, err error) {
	bc, err := ugo.Compile([]byte(src), opts)
	if err != nil {
		return nil, nil, err
	}
	return runTryBC(bc)
}

func runTryBC(bc *ugo.Bytecode) (out any, log any, err error) {
	g := ugo.Map{"log": ugo.Array{}}
	// (no panic recovery in the VM: a Go panic out of Run is an outcome of its own, no reference outcome equals it)
	defer func() {
		if p := recover(); p != nil {
			out, log, err = []any{"gopanic", fmt.Sprint(p)}, objToAny(g["log"]), nil
		}
	}()
	ret, rerr := ugo.NewVM(bc).Run(g)
	out = outcomeOf(ret, rerr)
	return out, objToAny(g["log"]), nil
}

func outcomeOf(ret ugo.Object, rerr error) any {
	if rerr != nil {
		re, ok := rerr.(*ugo.RuntimeError)
		if !ok {
			return []any{"goerr", rerr.Error()}
		}
		if re.Err != nil && re.Err.Name == "ZeroDivisionError" {
			return []any{"thr", []any{float64(0)}}
		}
		var p []any
		if re.Err != nil {
			json.Unmarshal([]byte(re.Err.Message), &p)
		}
		if p == nil {
			return []any{"thr", re.Error()}
		}
		return []any{"thr", p}
	}
	if ret == ugo.Undefined {
		return []any{"norm"}
	}
	return objToAny(ret)
}

func init() {
	// c03 <cases.ndjson> <results.ndjson> <trace.ndjson> <regs.json>
	subs["c03"] = func(args []string) error {
		if len(args) < 4 {
			return fmt.Errorf("c03 cases results trace regs")
		}
		res, err := newOut(args[1])
		if err != nil {
			return err
		}
		defer res.close()
		tr, err := newTracer(args[2])
		if err != nil {
			return err
		}
		tr.install()
		n := 0
		every := 1
		fmt.Sscan(os.Getenv("VERIF_TRACE_EVERY"), &every)
		if every < 1 {
			every = 1
		}
		off := int(seed()) % every
		err = readCases(args[0], func(raw []byte) error {
			var c tCase
			if err := json.Unmarshal(raw, &c); err != nil {
				return err
			}
			n++
			src := renderTry(c.Prog)
			refS := norm(c.Exp.O) + "|" + norm(c.Exp.L)
			modS := norm(c.Out) + "|" + norm(c.Log)
			r := map[string]any{"n": n, "src": src, "ref": refS, "model": modS, "prog": c.Prog}
			traced := n%every == off
			var reals []string
			for i, opts := range []ugo.CompilerOptions{{}, {NoOptimize: true}} {
				tr.pause(i != 0 || !traced) // trace the first configuration of every k-th program
				out, log, err := runTry(src, opts)
				if err != nil {
					r["compile_err"] = err.Error()
					break
				}
				reals = append(reals, norm(out)+"|"+norm(log))
			}
			tr.pause(false)
			r["real"] = reals
			r["tag"] = tr.runs
			r["traced"] = traced
			res.put(r)
			return nil
		})
		if e := tr.close(args[3]); e != nil && err == nil {
			err = e
		}
		return err
	}
	// c03src <file.ugo>... : run given sources with tracing (used for replays / extra scripts)
}

func init() {
	// trysrc <file.ugo>: run a rendered F_try source in both optimizer modes, print outcome|log
	subs["trysrc"] = func(args []string) error {
		b, err := os.ReadFile(args[0])
		if err != nil {
			return err
		}
		for _, opts := range []ugo.CompilerOptions{{}, {NoOptimize: true}} {
			out, log, err := runTry(string(b), opts)
			if err != nil {
				return err
			}
			fmt.Println(norm(out) + "|" + norm(log))
		}
		return nil
	}
}
