package main

// C06: the case matrix of tla/UgoPanic.tla instantiated against the real
// limits: every failure kind x context x distance to the frame / value-stack
// limit, run with SetRecover(true); nothing may escape as a panic and the VM
// must run a following script correctly.

import (
	"encoding/json"
	"errors"
	"fmt"
	"os"
	"strings"
	"time"

	"github.com/ozanh/ugo"
)

type c06Case struct {
	Kind, Ctx, Depth, Expect string
}

// c06NoString is a host object that relies on ObjectImpl for everything: String panics (not implemented)
type c06NoString struct{ ugo.ObjectImpl }

// c06Err is an error type whose Error method reads a field (a nil *c06Err panics when used)
type c06Err struct{ msg string }

func (e *c06Err) Error() string { return "c06Err: " + e.msg }

func c06Fail(kind string) string {
	switch kind {
	case "div0":
		return "q := a / b"
	case "mod0":
		return "q := a % b"
	case "shiftneg":
		return "q := a << (b - 1)"
	case "index":
		return "q := [1][5 + b]"
	case "slice":
		return "q := \"abc\"[5 + b:]"
	case "notcallable":
		return "q := b()"
	case "nargs":
		return "q := (func(x) { return x })()"
	case "gopanic":
		return "q := gopanic(\"boom\")"
	case "gopanic-nilerr":
		return "q := gopanic(\"nilerr\")"
	case "gopanic-nilrte":
		return "q := gopanic(\"nilrte\")"
	case "gopanic-ugoerr":
		return "q := gopanic(\"ugoerr\")"
	case "gopanic-struct":
		return "q := gopanic(\"struct\")"
	case "gopanic-nil":
		return "q := gopanic(undefined)"
	case "syncmap-get":
		// the index operation of a lock-protected map panics inside the locked region (the index is a host
		// object without a String method); the map is used before, so that a repetition needs the lock again
		return "sm.n = 1; q := sm[bad]"
	case "syncmap-set":
		return "sm[bad] = 1"
	case "throw":
		return "throw \"t\""
	case "framelimit":
		return "var rr; rr = func(n) { return 1 + rr(n + 1) }; q := rr(0)"
	case "framelimit-catch":
		// the frame limit is reached in a function that catches the error itself, in every activation
		// (no parameters, no catch variable: at most two stack slots per activation, so the 1024 frames are
		// exhausted before the 2048 value-stack slots)
		return "var rc; rc = func() { try { return rc() + 1 } catch { return 1000 } }; q := rc(); if q > 0 { throw \"done\" }"
	case "wideexpr":
		// one expression that needs more value-stack slots than there are, without any recursion
		return "q := len([" + repeatList(2100, func(i int) string { return "a" }, ", ") + "])"
	case "notiterable":
		return "for v in 5 + b { }"
	case "setindex":
		return "q := [1]; q[5 + b] = 1"
	case "setselector":
		return "q := 1 + b; q.a = 2"
	case "spread":
		return "q := len(...(5 + b))"
	case "builtin-type":
		return "q := append(1 + b, 2)"
	case "stacklimit":
		return "var ww; ww = func(n) {\n" + repeatList(150, func(i int) string { return fmt.Sprintf("l%d := n", i) }, "; ") + "\nreturn 1 + ww(n + 1) }; q := ww(0)"
	}
	panic("kind " + kind)
}

func c06Script(c c06Case, depth int) string {
	var sb strings.Builder
	sb.WriteString("global (gopanic, cbcall, cbcall2, fin, sm, bad)\nparam (a, b)\n")
	sb.WriteString("fail := func() {\n" + c06Fail(c.Kind) + "\nreturn \"nofail\"\n}\n")
	body := ""
	switch c.Ctx {
	case "plain":
		body = "return fail()"
	case "try-catch":
		body = "try { fail() } catch e { return \"caught\" }\nreturn \"nothing-thrown\""
	case "try-finally":
		body = "try { fail() } finally { fin = true }\nreturn \"nothing-thrown\""
	case "catch-rethrow":
		body = "try { fail() } catch e { throw e }\nreturn \"nothing-thrown\""
	case "callback":
		body = "return cbcall(fail)"
	case "callback-try":
		body = "try { cbcall(fail) } catch e { return \"caught\" }\nreturn \"nothing-thrown\""
	case "try-in-callback":
		body = "return cbcall(func() { try { fail() } catch e { return \"caught\" }; return \"nothing-thrown\" })"
	case "try-in-callback-unpooled":
		body = "return cbcall2(func() { try { fail() } catch e { return \"caught\" }; return \"nothing-thrown\" })"
	case "catch-then-catch":
		body = "try { fail() } catch e1 { }\ntry { fail() } catch e2 { return \"caught\" }\nreturn \"nothing-thrown\""
	case "catch-then-plain":
		body = "try { fail() } catch e1 { }\nreturn fail()"
	case "loop-catch":
		body = "n := 0\nfor i := 0; i < 3; i++ { try { fail() } catch e { n++ } }\nif n == 3 { return \"caught\" }\nreturn \"nothing-thrown\""
	case "host-invoke", "host-invoke-unpooled":
		// the host calls the returned function itself after Run
		body = "return fail"
	}
	switch c.Depth {
	case "shallow":
		sb.WriteString(body + "\n")
	case "nearframes":
		fmt.Fprintf(&sb, "act := func() {\n%s\n}\nvar dd; dd = func(n) { if n == 0 { return act() }; x := dd(n - 1); return x }\nreturn dd(%d)\n", body, depth)
	case "nearstack":
		fmt.Fprintf(&sb, "act := func() {\n%s\n}\nvar dd; dd = func(n) {\n%s\nif n == 0 { return act() }; x := dd(n - 1); return x }\nreturn dd(%d)\n",
			body, repeatList(120, func(i int) string { return fmt.Sprintf("k%d := n", i) }, "; "), depth)
	}
	return sb.String()
}

func init() {
	// c06 <matrix.json-line> <results.ndjson>
	subs["c06"] = func(args []string) error {
		raw, err := os.ReadFile(args[0])
		if err != nil {
			return err
		}
		line := strings.TrimSpace(strings.Split(string(raw), "\n")[0])
		if strings.HasPrefix(line, "\"") {
			var inner string
			if err := json.Unmarshal([]byte(line), &inner); err != nil {
				return err
			}
			line = inner
		}
		var cases []c06Case
		if err := json.Unmarshal([]byte(line), &cases); err != nil {
			return err
		}
		out, err := newOut(args[1])
		if err != nil {
			return err
		}
		defer out.close()
		gopanic := &ugo.Function{Name: "gopanic", Value: func(a ...ugo.Object) (ugo.Object, error) {
			if len(a) > 0 && a[0] == ugo.Undefined {
				var m map[string]int
				m["x"] = 1 // runtime error: assignment to entry in nil map
			}
			if len(a) > 0 {
				// panic values of other kinds: error values whose methods cannot be used (a nil pointer in an
				// error interface), a runtime error of the VM's own type, a value that is no error at all
				switch a[0].String() {
				case "nilerr":
					var e *c06Err
					panic(error(e))
				case "nilrte":
					var e *ugo.RuntimeError
					panic(error(e))
				case "ugoerr":
					panic(&ugo.Error{Name: "HostError", Message: "from host"})
				case "struct":
					panic(struct{ A int }{7})
				}
			}
			panic(fmt.Sprint("go panic: ", a))
		}}
		thorough := os.Getenv("VERIF_TIER") == "thorough"
		probeBC, _ := ugo.Compile([]byte("r := []\ntry { r = append(r, 1); throw \"x\" } catch e { r = append(r, 2) } finally { r = append(r, 3) }\nf := func(...v) { return len(v) }\nreturn [r, f(1, 2), f()]"), ugo.CompilerOptions{})
		probeWant := "[[1, 2, 3], 2, 0]"
		probeErrBC, _ := ugo.Compile([]byte("a := [1]\nb := 5\nreturn a[b]"), ugo.CompilerOptions{})
		runs := 0
		nviol := 0
		for _, c := range cases {
			if nviol >= 25 {
				break // enough evidence; failing runs may cost seconds each
			}
			depths := []int{0}
			switch c.Depth {
			case "nearframes":
				depths = []int{1000, 1016, 1018, 1019, 1020, 1021, 1022, 1023}
				if !thorough {
					depths = []int{1018, 1020, 1021, 1023}
				}
			case "nearstack":
				depths = []int{12, 13, 14, 15, 16, 17}
				if !thorough {
					depths = []int{14, 15, 16}
				}
			}
			argsets := [][]ugo.Object{{ugo.Int(1), ugo.Int(0)}}
			if c.Depth == "shallow" {
				argsets = append(argsets, nil, []ugo.Object{ugo.String("x"), ugo.Map{}}, []ugo.Object{ugo.Float(1.5), ugo.Char('c'), ugo.Array{ugo.Int(1)}, ugo.Map{}, ugo.Undefined})
			}
			for _, d := range depths {
				src := c06Script(c, d)
				bc, err := ugo.Compile([]byte(src), ugo.CompilerOptions{})
				if err != nil {
					out.put(N{"case": c, "depth": d, "what": "harness script does not compile: " + err.Error(), "kind": "harness"})
					continue
				}
				for ai, as := range argsets {
					runs++
					g := ugo.Map{"gopanic": gopanic, "cbcall": hostCall(true), "cbcall2": hostCall(false), "fin": ugo.False,
						"sm": &ugo.SyncMap{Value: ugo.Map{"k": ugo.Int(1)}}, "bad": &c06NoString{}}
					vm := ugo.NewVM(bc).SetRecover(true)
					type res struct {
						ret   ugo.Object
						err   error
						panic any
					}
					ch := make(chan res, 1)
					go func() {
						defer func() {
							if p := recover(); p != nil {
								ch <- res{panic: p}
							}
						}()
						ret, err := vm.Run(g, as...)
						if strings.HasPrefix(c.Ctx, "host-invoke") && err == nil && ret != nil && ret.CanCall() {
							inv := ugo.NewInvoker(vm, ret)
							if c.Ctx == "host-invoke" {
								inv.Acquire()
								defer inv.Release()
							}
							ret, err = inv.Invoke()
						}
						ch <- res{ret: ret, err: err}
					}()
					var r res
					t := time.NewTimer(8 * time.Second)
					select {
					case r = <-ch:
					case <-t.C:
						vm.Abort()
						nviol++
						out.put(N{"case": c, "depth": d, "args": ai, "what": "run did not end within 8 s", "kind": "violation"})
						t.Stop()
						continue
					}
					t.Stop()
					if os.Getenv("VH_C06_OBS") != "" {
						// C14 compares the outcome of the same function called in the script and called from Go
						obs := ""
						switch {
						case r.panic != nil:
							obs = "panic"
						case r.err != nil:
							// the name of the uGO error, however the Go error is wrapped on its way out of Run
							name := ""
							var re *ugo.RuntimeError
							var ue *ugo.Error
							if errors.As(r.err, &re) && re.Err != nil {
								name = re.Err.Name
							} else if errors.As(r.err, &ue) {
								name = ue.Name
							}
							if name == "" {
								name = "error"
							}
							obs = "err:" + name
						case r.ret == nil:
							obs = "ret:nil"
						default:
							obs = "ret:" + r.ret.TypeName() + ":" + r.ret.String()
						}
						out.put(N{"kind": "obs", "case": c, "depth": d, "args": ai, "obs": obs, "src": src})
					}
					bad := ""
					switch {
					case r.panic != nil:
						bad = fmt.Sprint("panic escaped from Run: ", r.panic)
					case ai == 0 && c.Expect == "value" && !(r.err == nil && r.ret != nil && r.ret.String() == "caught"):
						bad = fmt.Sprintf("expected the script's catch to take over and return \"caught\", got %v / %v", r.ret, errShort(r.err))
					case ai == 0 && c.Expect == "error" && r.err == nil:
						bad = fmt.Sprintf("expected an error from Run, got value %v", r.ret)
					case ai == 0 && c.Expect == "error-after-finally" && (r.err == nil || g["fin"] != ugo.True):
						bad = fmt.Sprintf("expected the finally block to run and then an error, got %v / %v (finally ran: %v)", r.ret, errShort(r.err), g["fin"])
					}
					// the VM runs further scripts correctly afterwards
					if bad == "" {
						func() {
							defer func() {
								if p := recover(); p != nil {
									bad = fmt.Sprint("follow-up run panics: ", p)
								}
							}()
							// an error raised outside any try statement must still end the run (first: nothing has
							// run on this VM since the failure)
							runW := func() (ugo.Object, error) {
								type rr struct {
									o ugo.Object
									e error
								}
								ch := make(chan rr, 1)
								go func() {
									defer func() {
										if p := recover(); p != nil {
											ch <- rr{nil, fmt.Errorf("PANIC: %v", p)}
										}
									}()
									o, e := vm.Run(nil)
									ch <- rr{o, e}
								}()
								select {
								case x := <-ch:
									return x.o, x.e
								case <-time.After(5 * time.Second):
									for i := 0; i < 200; i++ {
										vm.Abort()
										time.Sleep(time.Millisecond)
									}
									return nil, fmt.Errorf("follow-up run did not end within 5 s")
								}
							}
							vm.SetBytecode(probeErrBC)
							ret, err := runW()
							if re, ok := err.(*ugo.RuntimeError); !ok || re.Err == nil || re.Err.Name != "IndexOutOfBoundsError" {
								bad = fmt.Sprintf("follow-up run of a failing script on the same VM returned %v / %v, a new VM returns IndexOutOfBoundsError", ret, errShort(err))
								return
							}
							vm.SetBytecode(probeBC)
							ret, err = runW()
							if err != nil || ret == nil || ret.String() != probeWant {
								bad = fmt.Sprintf("follow-up run on the same VM returned %v / %v, a new VM returns %s", ret, errShort(err), probeWant)
							}
						}()
					}
					if bad != "" {
						nviol++
						out.put(N{"case": c, "depth": d, "args": ai, "what": bad, "kind": "violation", "src": src})
					}
				}
			}
		}
		// arguments of every count: the main function's parameter list (0..3 fixed parameters, with and without a
		// variadic one) against 0..5 arguments, bound by Run before the loop starts; and the same lists for a script
		// function the host invokes
		shapes := 0
		for fixed := 0; fixed <= 3; fixed++ {
			for _, variadic := range []bool{false, true} {
				var ps []string
				for i := 0; i < fixed; i++ {
					ps = append(ps, fmt.Sprintf("p%d", i))
				}
				if variadic {
					ps = append(ps, "...rest")
				}
				if len(ps) == 0 {
					continue
				}
				list := strings.Join(ps, ", ")
				mainBC, err1 := ugo.Compile([]byte("param ("+list+")\nreturn 1"), ugo.CompilerOptions{})
				fnBC, err2 := ugo.Compile([]byte("return func("+list+") { return 1 }"), ugo.CompilerOptions{})
				if err1 != nil || err2 != nil {
					out.put(N{"case": c06Case{Kind: "params", Ctx: list}, "depth": 0, "what": fmt.Sprint("harness script does not compile: ", err1, err2), "kind": "harness"})
					continue
				}
				for nargs := 0; nargs <= 5; nargs++ {
					var as []ugo.Object
					for i := 0; i < nargs; i++ {
						as = append(as, ugo.Int(i))
					}
					for _, how := range []string{"main", "invoke", "invoke-pooled"} {
						shapes++
						runs++
						func() {
							defer func() {
								if p := recover(); p != nil {
									nviol++
									out.put(N{"case": c06Case{Kind: "params", Ctx: how, Depth: list}, "depth": nargs, "args": nargs, "kind": "violation",
										"what": fmt.Sprintf("parameter list (%s) with %d arguments (%s): panic escaped although recovery is on: %v", list, nargs, how, p)})
								}
							}()
							if how == "main" {
								ugo.NewVM(mainBC).SetRecover(true).Run(nil, as...)
								return
							}
							vm := ugo.NewVM(fnBC).SetRecover(true)
							f, err := vm.Run(nil)
							if err != nil || f == nil {
								return
							}
							inv := ugo.NewInvoker(vm, f)
							if how == "invoke-pooled" {
								inv.Acquire()
								defer inv.Release()
							}
							inv.Invoke(as...)
						}()
					}
				}
			}
		}
		out.put(N{"done": true, "runs": runs, "cases": len(cases), "paramshapes": shapes})
		return nil
	}
}

func errShort(err error) string {
	if err == nil {
		return "<nil>"
	}
	s := err.Error()
	if len(s) > 120 {
		s = s[:120]
	}
	return strings.ReplaceAll(s, "\n", " ")
}
